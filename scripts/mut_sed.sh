#!/bin/bash
# usage: mut_sed.sh <ID> <file-in-repo> <perl-expr> [check args...]
# applies a perl -0pi expression to one file of /repo, shows the diff, runs the check, reverts.
id="$1"; file="$2"; expr="$3"; shift 3
cd /repo || exit 2
trap 'git -C /repo checkout -- . ' EXIT
perl -0pi -e "$expr" "$file"
if git diff --quiet; then echo "MUTATION DID NOT CHANGE ANYTHING"; exit 2; fi
git --no-pager diff | grep '^[-+]' | grep -v '^+++\|^---'
(cd /repo && GOFLAGS=-mod=mod GOPROXY=off go build ./... ) || { echo "MUTANT DOES NOT BUILD"; exit 2; }
cd /verif && ./bin/check "$id" --no-evidence "$@" 2>&1 | grep -v "^    \|^   " | tail -12
echo "mutant exit: ${PIPESTATUS[0]}"
