#!/usr/bin/env python3
"""Regenerates the table of seeded changes in DESIGN.md (between the seeded-table markers)
from /verif/seeded/*/meta.json."""
import json, glob, os, re
rows = []
for d in sorted(glob.glob('/verif/seeded/C*')):
    m = json.load(open(d + '/meta.json'))
    sid = os.path.basename(d)
    summ = (m.get('summary') or '').replace('\n', ' ').replace('|', '\\|')
    summ = re.sub(r'\s+', ' ', summ)
    if len(summ) > 170:
        summ = summ[:167].rsplit(' ', 1)[0] + ' …'
    fp = (m.get('check_fingerprints') or '-').replace('|', '\\|')
    if len(fp) > 110:
        fp = fp[:107] + '…'
    rows.append('| %s | %s | %s | %s |' % (sid, summ, m.get('check_verdict', '?'), fp))
table = '| id | change | verdict of the check | fingerprint(s) |\n|---|---|---|---|\n' + '\n'.join(rows)
p = '/verif/DESIGN.md'
s = open(p).read()
a, b = '<!-- seeded-table-begin -->', '<!-- seeded-table-end -->'
i, j = s.index(a) + len(a), s.index(b)
s = s[:i] + '\n' + table + '\n' + s[j:]
open(p, 'w').write(s)
n = len(rows)
caught = sum(1 for r in rows if '| caught' in r)
benign = sum(1 for r in rows if '| benign' in r)
print(n, 'changes:', caught, 'caught,', benign, 'benign without alarm,', n - caught - benign, 'other')
