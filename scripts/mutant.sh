#!/bin/bash
# usage: mutant.sh <patch.diff> <ID> [extra check args]
# applies the patch to /repo, runs the quick check without writing evidence, reverts.
set -u
patch="$1"; id="$2"; shift 2
cd /repo || exit 2
if ! git apply --check "$patch" 2>/dev/null; then echo "patch does not apply: $patch"; exit 2; fi
git apply "$patch"
trap 'git -C /repo checkout -- . ; git -C /repo clean -fdq' EXIT
cd /verif && ./bin/check "$id" --no-evidence "$@"
rc=$?
echo "mutant exit code: $rc"
exit $rc
