#!/usr/bin/env python3
"""usage: thorough_table.py <log>  - rewrites the table of thorough-tier runs in DESIGN.md 9.3
from the 'check: property=... tier=thorough cases=...' lines of a log (last line per property wins)."""
import re, sys
rows = {}
for l in open(sys.argv[1]):
    m = re.match(r'check: property=(C\d+) tier=thorough cases=(\d+) nontrivial_distinct=(\d+) classes=(\d+) violations=(\d+) known=(\d+) wall=([\d.]+)s', l)
    if m:
        rows[m.group(1)] = m.groups()
out = ['| check | cases | distinct non-trivial | state classes | violations | known findings | wall time |', '|---|---|---|---|---|---|---|']
for k in sorted(rows):
    p, cases, nd, cl, v, kn, w = rows[k]
    out.append('| %s | %s | %s | %s | %s | %s | %d min |' % (p, f'{int(cases):,}'.replace(',', ' '), f'{int(nd):,}'.replace(',', ' '), cl, v, kn, round(float(w) / 60)))
p = '/verif/DESIGN.md'
s = open(p).read()
a, b = '<!-- thorough-table-begin -->', '<!-- thorough-table-end -->'
i, j = s.index(a) + len(a), s.index(b)
open(p, 'w').write(s[:i] + '\n' + '\n'.join(out) + '\n' + s[j:])
print(len(rows), 'rows')
