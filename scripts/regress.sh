#!/bin/bash
# usage: regress.sh <property>...   re-runs the quick check against every seeded change of the
# property (scratch worktree each, /repo untouched) and compares with the recorded verdict:
# breaking changes recorded as caught must give exit 1, benign ones exit 0.
cd /verif
for P in "$@"; do
  for d in seeded/$P-*; do
    id=$(basename $d)
    want=$(python3 -c "
import json;m=json.load(open('$d/meta.json'));v=m.get('check_verdict','')
print(0 if v.startswith('benign') else (1 if v.startswith('caught') else 'x'))")
    out=$(scripts/recheck.sh $id 2>&1 | tail -1)
    got=${out##*: }
    if [ "$want" = x ]; then echo "$id: recorded as not caught; now exit $got"
    elif [ "$want" = "$got" ]; then echo "$id: ok (exit $got)"
    else echo "$id: MISMATCH want $want got $got"; fi
  done
done
