#!/bin/bash
# usage: recheck.sh <seeded-id> [check args]   e.g. recheck.sh C20-w2b --cases 30000
# applies /verif/seeded/<id>/patch.diff to a scratch worktree of /repo (HEAD), runs the
# property's check against it (VERIF_REPO), removes the worktree.  /repo is not touched.
id="$1"; shift
P=${id%%-*}
W=/tmp/exp/rc-$id-$$
mkdir -p /tmp/exp
git -C /repo worktree add -q --detach $W HEAD || exit 2
trap 'git -C /repo worktree remove --force '$W' 2>/dev/null' EXIT
cd $W && git apply /verif/seeded/$id/patch.diff 2>/dev/null || { echo "[$id] patch does not apply to /repo HEAD"; exit 3; }
cd /verif && VERIF_REPO=$W ./bin/check $P --no-evidence "$@" > /tmp/recheck-$id.log 2>&1
rc=$?
grep "^violation:\|^check: property" /tmp/recheck-$id.log | cut -c1-200 | head -6
echo "[$id] check exit code: $rc"
