#!/bin/bash
# usage: recheck.sh <seeded-id> [check args]   e.g. recheck.sh C20-w2b --cases 30000
# applies /verif/seeded/<id>/patch.diff to /repo, runs the property's check, reverts.
id="$1"; shift
P=${id%%-*}
cd /repo && git apply --check /verif/seeded/$id/patch.diff 2>/dev/null || { echo "[$id] patch does not apply to /repo HEAD"; exit 3; }
git apply /verif/seeded/$id/patch.diff
trap 'git -C /repo checkout -q -- .' EXIT
cd /verif && ./bin/check $P --no-evidence "$@" > /tmp/recheck-$id.log 2>&1
rc=$?
grep "^violation:\|^check: property" /tmp/recheck-$id.log | cut -c1-200 | head -6
echo "[$id] check exit code: $rc"
