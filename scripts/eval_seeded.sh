#!/bin/bash
# usage: eval_seeded.sh <PROP> <letter> [check args]
# 1. verifies a sub-agent's seeded change in its own worktree (suite passes with the
#    change, demo fails with it and passes without it), 2. stores it under
#    /verif/seeded/<PROP>-<letter>/, 3. applies it to /repo, runs the property's
#    check, reverts.  Prints a one-line verdict.
P="$1"; L="$2"; shift 2
WT=${WTBASE:-/tmp/wt}-$P; S=$WT/seeded/$L; TAG=${TAG:-}
export GOFLAGS=-mod=mod GOPROXY=off GOSUMDB=off GOTOOLCHAIN=local
[ -f $S/patch.diff ] || { echo "no patch for $P/$L"; exit 2; }
cd $WT || exit 2
git checkout -q -- . ; 
dest=$(head -1 $S/demo_test.go | sed -n 's/.*copy to:[ ]*\([^ ]*\).*/\1/p'); dest=${dest%/}; [ -z "$dest" ] && dest=.
[ "$dest" = "module root" ] && dest=.
demo=$dest/zz_seeded_demo_test.go
# (a) with the change
git apply $S/patch.diff || { echo "$P/$L: patch does not apply in worktree"; exit 2; }
go build ./... >/dev/null 2>&1 || { echo "$P/$L: does not build"; git checkout -q -- .; exit 2; }
suite=$(go test -count=1 $(go list ./... 2>/dev/null | grep -v /seeded) 2>&1 | grep -v "^ok\|no test files\|^?" | head -5)
cp $S/demo_test.go $demo
race=""; grep -q '"-race"\|go test -race\|-race' $S/meta.json && race="-race"
withc=$(go test $race -count=1 ./$dest/ 2>&1 | tail -3 | tr '\n' ' ')
rm -f $demo; git checkout -q -- .
# (b) without the change
cp $S/demo_test.go $demo
without=$(go test $race -count=1 ./$dest/ 2>&1 | tail -2 | tr '\n' ' ')
rm -f $demo
echo "[$P/$L] suite-with-change: ${suite:-PASS}"
echo "[$P/$L] demo with change:    $withc" | cut -c1-300
echo "[$P/$L] demo without change: $without" | cut -c1-300
mkdir -p /verif/seeded/$P-$TAG$L && cp $S/patch.diff $S/demo_test.go $S/meta.json /verif/seeded/$P-$TAG$L/
# (c) run the check against it
W=/tmp/exp/ev-$P-$L-$$; mkdir -p /tmp/exp
git -C /repo worktree add -q --detach $W HEAD || exit 2
trap 'git -C /repo worktree remove --force '$W' 2>/dev/null' EXIT
(cd $W && git apply $S/patch.diff 2>/dev/null) || { echo "[$P/$L] patch does not apply to /repo HEAD"; exit 3; }
cd /verif && VERIF_REPO=$W ./bin/check $P --no-evidence "$@" > /tmp/eval-$P-$L.log 2>&1
rc=$?
grep "^violation:\|^KNOWN\|^check: property" /tmp/eval-$P-$L.log | cut -c1-220 | head -8
echo "[$P/$L] check exit code: $rc"
