#!/usr/bin/env python3
"""Generates /verif/MANIFEST.json from the table below (hand-maintained)."""
import json, sys

ENV = "GOFLAGS=-mod=mod GOPROXY=off GOSUMDB=off GOTOOLCHAIN=local"

claimed = {
    "C17": dict(
        level="exploration",
        text="Seeded search over operation histories of parser.Parser against a slice-backed reference model, with the reader under the parser simulated (tape-chosen short reads, both EOF forms, single zero-length reads, seeks beyond EOF); all histories of length <= 2 (quick) / <= 3 (thorough) over a boundary alphabet are enumerated first, the rest is sampled. A clean batch is evidence, not proof.",
        design="3 C17",
        note="Trusted: the slice model in harness/c17 (about 150 lines), the simulated reader in harness/simio. Not covered: readers that return non-EOF errors (C18) or misbehave outside the io.Reader contract.",
        technique="deterministic simulation: seeded operation histories over a simulated short-reading reader, checked step by step against a reference model; tape-minimised replay files",
    ),
}

PENDING_REASON = "not claimed at this commit: the simulation check for this property (DESIGN.md section 3) is still under construction; it is intended to be claimed, not declared inapplicable"
claimed["C18"] = dict(
    level="fault_enumeration",
    text="Per corpus file the fault space (offset k x fault family x operation) is enumerated: completely for every file <= 64 KiB in the thorough tier, at every write-call and table boundary (+-1) plus sampled interior offsets otherwise. Families: writer fails at k (five acceptance modes incl. short writes and a transient failure), file cut at k, reader fails from k on (ReaderAt with both EOF conventions, streaming reader with short reads), reader fails in a bounded window. What is sampled is the corpus (Go fonts, CFF conversions, 36 generated fonts).",
    design="3 C18",
    note="Trusted: simio fault-injecting writer/readers, the harness's own directory walk (end of table data), the font comparer. A bounded-window read fault followed by success is accepted iff the returned font equals the fault-free one.",
    technique="deterministic fault injection at enumerated byte offsets of simulated writers/readers (crash images, failing devices), oracles on returned (n, err) and on the simulated disk",
)
claimed["C03"] = dict(
    level="exploration",
    text="Storage-simulation invariant: after every acknowledged write (header.Write of generated table maps; Write / WriteTrueTypePDF / WriteOpenTypeCFFPDF of generated fonts) the simulated disk is checked by an independent container walk (fsck written from the OpenType specification), read back through header.Read/ReadTableBytes, and the write is repeated under several controlled map-iteration orders (the only nondeterminism in the writer). Complete fonts are additionally handed to golang.org/x/image/font/sfnt (incidental oracle). See the scope caveat in DESIGN.md section 3 C03.",
    design="3 C03",
    note="Trusted: harness/simgen/fsck.go (container walk), x/image/font/sfnt as independent parser for glyph count, unitsPerEm, cmap, advances and glyph names (files it declines are counted, not judged). Outlines: the independent parser must load every sampled glyph, find one sub-path per contour and return every on-/off-curve point of simple TrueType glyphs; curves of CFF glyphs are not compared. The loca table is walked from the specification (harness/simgen/fsck.go FsckLoca).",
    technique="deterministic simulation: generated writes onto a simulated disk under controlled map-iteration order, fsck invariant after every acknowledged write",
)

claimed["C01"] = dict(
    level="exploration",
    text="Seeded search over font values and files for the clauses that quantify over nondeterminism and history: the same font written under four controlled map-iteration orders, at different simulated instants (clock jumping >= 25 h per read), twice on one value and on a Clone must give identical bytes and leave the value untouched; every accepted file (corpus, written generated fonts, and survivors of the stored-data fault catalogue) must reach a byte fixed point over three read/write generations, each run under another map order and clock. The lossless clause for constructed fonts is evaluated on the same runs as an incidental field-by-field oracle.",
    design="3 C01",
    note="Trusted: the typed/reflective font comparer (floats to relative 1e-8), the simulated clock and map-order seam. Not decided: losslessness of fields with read-side precedence rules (IsBold, IsRegular) and of lookup-list shapes the encoders normalise; those are only covered through the fixed-point clause.",
    technique="deterministic simulation: controlled map-iteration order + simulated jumping clock + stored-data fault survivors, byte-equality and fixed-point oracles over write/read generations",
)

claimed["C20"] = dict(
    level="exploration",
    text="Seeded search over fonts, name patterns and GSUB rules with competing sources for the clause 'asking again returns the same names': MakeGlyphNames under five controlled map-iteration orders (incl. plain repetition), unchanged font digest, install/read-back/ask-again history on a copy, MakeSimple on CID-keyed fonts under three orders. The set invariants of the statement (one non-empty distinct name per glyph, .notdef first, existing unique names kept, PostScript-safe font name) are evaluated on the same runs as incidental oracles.",
    design="3 C20",
    note="Trusted: the map-order seam. Not decided: the order in which inference sources are consulted (cmap before GSUB before ornNNN) - a pure function of the input.",
    technique="deterministic simulation: controlled map-iteration order and call histories (query / install / query), equality of answers across orders and histories",
)

claimed["C15"] = dict(
    level="exploration",
    text="Seeded search for the clause 'the same on every call': FindLookups over generated script lists (1..20 language systems), languages and feature switches under five controlled map-iteration orders incl. plain repetition; NewLayouter+Layout of generated strings over generated fonts with GSUB/GPOS/GDEF under four orders and with the first string laid out again on the same Layouter (history). The composition clauses (ascending in-range indices that equal the lookup set of some language system, one glyph per character without rules, kern-table pairs, standard f-ligatures) are evaluated on the same runs as incidental oracles.",
    design="3 C15",
    note="Trusted: the map-order seam, a ten-line model of 'lookups of one language system'. Not decided: which language system should be preferred for a given language; agreement with x/image's Kern.",
    technique="deterministic simulation: controlled map-iteration order and Layouter call histories, equality of results across orders and repetitions",
)

claimed["C07"] = dict(
    level="exploration",
    text="Seeded search over (tables after storage faults, call histories): generated GSUB/GPOS/GDEF tables - mostly 'wild' shapes with out-of-range indices, empty replacements, self reference and more nested actions than the engine's budget - go through encode, the stored-data fault catalogue and gtab.Read/gdef.Read, so every table used is one the reader delivers; one Context and one Layouter then receive several calls. Oracles per call: no panic, a deterministic step budget (termination), text conservation as a multiset of runes, an output-length cap, equality with the same call on a fresh Context/Layouter (history independence) and under a second map order.",
    design="3 C07",
    note="Trusted: the step counter inserted by the rewriter (budget 2e8 per call), the fault catalogue, the typed deep comparison. Tables with vertical advance, device offsets or GPOS type 5 are excluded as the property says. 'Output length within what the matched substitutions can produce' is only checked against a generous cap (1e6 glyphs).",
    technique="deterministic simulation: stored-data fault injection between encode and read, seeded call histories on one Context/Layouter compared with fresh-context reference runs, deterministic step budget",
)

claimed["C02"] = dict(
    level="exploration",
    text="Storage-fault injection under the decoders: each of 19 decoders is fed artefacts the library itself wrote after 1..3 faults of the stored-data catalogue (plus undamaged and all-random controls), through simulated readers with short reads; oracles are no panic, a deterministic step budget, an allocation bound linear in the input, and a panic-free accessor battery (the accessors the statement lists, incl. re-encoding) on whatever is accepted. This reaches 'all byte strings' through the fault neighbourhood of valid files - the part of the space a deployment meets - and is a sample, not the space.",
    design="3 C02",
    note="Trusted: fault catalogue, step counter inserted by the rewriter, runtime.MemStats.TotalAlloc as allocation meter. Hand-made artefacts cover shapes the library's writers never emit (CFF subroutines, CID-keyed dictionaries with real operands, charstrings computing 2^63-sized operands for roll/index, GSUB and cmap tables with thousands of records sharing or overlapping one subtable); re-encoding an accepted cmap is metered like the decoding. Not covered: adversarial inputs far from any valid or hand-made artefact other than short random strings; inputs of several MB (largest artefact ~150 KiB).",
    technique="deterministic simulation: stored-data fault injection (crash images, bit rot, torn and misdirected writes) under simulated short-reading readers, with deterministic step and allocation budgets",
)

claimed["C16"] = dict(
    level="exploration",
    text="Seeded search over interleavings: 2..6 tasks run tape-chosen read-only operations on one shared font under a deterministic scheduler in which exactly one task runs at a time and the tape picks the next one at operation boundaries, simulated Write calls and sampled function-entry/loop steps. The baton is passed with raw pipe system calls from uninstrumented code, which the Go race detector does not model as synchronisation, so the worker (built with -race) still reports every unsynchronised conflicting access between tasks while the execution replays exactly. Every concurrent result is compared with the same call run alone on an independently built identical font, and the shared font's digest with its value before.",
    design="3 C16",
    note="Trusted: the Go race detector (bounded access history), package sched (200 lines, itself free of runtime-instrumented constructs), digests of results. Mid-operation switching matters only for interference through synchronised shared state; unsynchronised sharing is reported without needing the unlucky interleaving.",
    technique="deterministic simulation: tape-driven serial scheduler of goroutines (raw-pipe baton invisible to the race detector) + Go race detector as monitor + solo-run reference results",
)

claimed["C19"] = dict(
    level="exploration",
    text="Seeded search over (text, schedule): builder.Parse runs inside a testing/synctest bubble (go1.26.8); a yield is inserted before every channel operation of the builder package and at every quiescence the tape decides which parked goroutine proceeds. Texts are selections from sample descriptions of GSUB1-6/GPOS1-4, Explain output of generated lookups and random bytes, with 0..3 token-level faults (the parse error is the fault point: it decides where the consumer abandons the producers). Decided: returns lookups or an error with a line number; no panic; no deadlock (quiescence with Parse unreturned); no goroutine left behind (goroutines of the builder package alive after everything was released); termination within a step budget. The notation round trip Parse(Explain(L)) == L is evaluated for every accepted text as an incidental oracle.",
    design="3 C19",
    note="Trusted: testing/synctest's quiescence detection, goroutine dumps for leak attribution, the rewriter's coverage of channel operations. The clause 'parsing means what the documented syntax says' is decided for ranges only (a description with hyphenated ranges must parse like the same description written out) and otherwise through the round trip; lookup lists are generated from the language's own samples and Explain output, not from an independent grammar.",
    technique="deterministic simulation: tape-driven goroutine scheduler inside a synctest bubble (quiescence = deadlock/leak oracle), parse errors as fault points",
)

pending = {k: PENDING_REASON for k in ["C01", "C02", "C03", "C07", "C15", "C16", "C18", "C19", "C20"] if k not in claimed}

not_applicable = {
    "C04": "pure function of the glyph program: no schedule, clock, fault, interleaving or call history can change the outcome; deciding it needs an independent Type 2 interpreter and input generation, i.e. a different technique (DESIGN.md section 4)",
    "C05": "pure function of the charstring; needs a reference interpreter, not a simulator (DESIGN.md section 4)",
    "C06": "pure function of (tables, glyph sequence); needs a reference shaper, not a simulator; safety/termination/history-independence of the same engine are decided under C07 (DESIGN.md section 4)",
    "C08": "pure encode/decode round trip; nothing for a scheduler or fault injector to vary (DESIGN.md section 4)",
    "C09": "pure encode/decode and table selection (DESIGN.md section 4)",
    "C10": "pure function of (font, glyph list); the statement has no determinism or fault clause (DESIGN.md section 4)",
    "C11": "pure encode/decode round trip (DESIGN.md section 4)",
    "C12": "pure encode/decode round trip and arithmetic on the input (DESIGN.md section 4)",
    "C13": "pure encode/decode round trip (DESIGN.md section 4)",
    "C14": "pure encode/decode round trip (DESIGN.md section 4)",
}

def main():
    checks = []
    for pid in sorted(claimed):
        c = claimed[pid]
        checks.append({
            "property_id": pid,
            "quick_cmd": f"./bin/check {pid} --tier quick",
            "thorough_cmd": f"./bin/check {pid} --tier thorough",
            "evidence_file": f"/verif/evidence/{pid}.json",
            "replay_cmd_template": f"./bin/check {pid} --replay {{path}}",
            "engine": "simcheck",
            "level_claimed": {"category": c["level"], "text": c["text"], "design_ref": "DESIGN.md section " + c["design"]},
            "level_note": c["note"],
            "technique": c["technique"],
        })
    na = [{"property_id": k, "reason": v} for k, v in sorted({**not_applicable, **pending}.items())]
    m = {
        "version": 1,
        "setup_cmd": f"cd /verif && mkdir -p bin evidence replays && {ENV} go build -o bin/check ./cmd/check && {ENV} go build -o bin/rewrite ./cmd/rewrite && (go build -race std; GOTOOLCHAIN=local go1.26.8 build std; true)",
        "hooks": {
            "guard": "none in /repo: all instrumentation (map-order, clock, step-counter and yield seams) is applied by /verif/cmd/rewrite to a scratch copy of /repo's working tree at check time; /repo carries no hook code",
            "enable": "bin/check copies /repo to $TMPDIR/verif-scratch/<id>-<pid>, runs bin/rewrite on the copy, adds /verif/harness as package seehuhn.de/go/sfnt/zzverif/... and builds the worker there",
            "baseline_off_cmd": "cd /repo && GOFLAGS=-mod=mod GOPROXY=off GOSUMDB=off go test -json -vet=off -count=1 -timeout 25m ./...",
            "source_commits": [],
            "add_only": True,
        },
        "engines": [{
            "name": "simcheck",
            "path": "/verif/cmd/check (supervisor), /verif/cmd/rewrite (instrumenter), /verif/harness (simulator, workers)",
            "serves_properties": sorted(claimed),
            "kind_free_text": "deterministic simulation with fault injection: one choice tape per case decides generated data, operations, faults, map iteration order, clock and goroutine schedule; tape-minimised replay files",
        }],
        "checks": checks,
        "not_applicable": na,
        "notes": "Exit codes of bin/check: 0 property held (KNOWN-FINDING lines allowed), 1 violation (VIOLATION line with replay file), 2 harness trouble (never a violation). VERIF_SEED and VERIF_TIER are honoured.",
    }
    json.dump(m, open("/verif/MANIFEST.json", "w"), indent=1)
    print("wrote MANIFEST.json with", len(checks), "checks,", len(na), "not_applicable")

if __name__ == "__main__":
    main()
