#!/usr/bin/env python3
"""usage: verdict.py <seeded-id> <verdict> <fingerprints> <note>  - records what the check made of a seeded change"""
import json, sys
sid, verdict, fps, note = sys.argv[1:5]
p = '/verif/seeded/%s/meta.json' % sid
m = json.load(open(p))
P, L = sid.split('-')
benign = L.endswith('z')
m['breaks_property'] = None if benign else P
tag = ''.join(c for c in L[:-1])
letter = L[-1]
if benign:
    m['confirmed_by_harness_author'] = "WTBASE=/tmp/%s TAG=%s scripts/eval_benign.sh %s: suite passes with the change; the check was run against a scratch worktree with the change and must not raise an alarm" % (tag, tag, P)
else:
    m['confirmed_by_harness_author'] = "WTBASE=/tmp/%s TAG=%s scripts/eval_seeded.sh %s %s: suite passes with the change; demo fails with it and passes without it; then the check was run against a scratch worktree with the change (scripts/recheck.sh %s)" % (tag, tag, P, letter, sid)
m['check_verdict'] = verdict
m['check_fingerprints'] = fps
m['check_note'] = note
json.dump(m, open(p, 'w'), indent=1)
