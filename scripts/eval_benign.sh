#!/bin/bash
# usage: eval_benign.sh <PROP>   (WTBASE, TAG as for eval_seeded.sh)
# a benign change: the suite must pass with it and the check must NOT raise an alarm.
P="$1"; shift
WT=${WTBASE:-/tmp/wt}-$P; S=$WT/seeded/z; TAG=${TAG:-}
export GOFLAGS=-mod=mod GOPROXY=off GOSUMDB=off GOTOOLCHAIN=local
[ -f $S/patch.diff ] || { echo "no benign patch for $P"; exit 2; }
cd $WT && git checkout -q -- . && git apply $S/patch.diff || { echo "[$P/z] patch does not apply"; exit 2; }
suite=$(go test -count=1 $(go list ./... 2>/dev/null | grep -v /seeded) 2>&1 | grep -v "^ok\|no test files\|^?" | head -5)
git checkout -q -- .
echo "[$P/z] suite-with-change: ${suite:-PASS}"
mkdir -p /verif/seeded/$P-${TAG}z && cp $S/patch.diff $S/meta.json /verif/seeded/$P-${TAG}z/
W=/tmp/exp/ev-$P-z-$$; mkdir -p /tmp/exp
git -C /repo worktree add -q --detach $W HEAD || exit 2
trap 'git -C /repo worktree remove --force '$W' 2>/dev/null' EXIT
(cd $W && git apply $S/patch.diff 2>/dev/null) || { echo "[$P/z] patch does not apply to /repo HEAD"; exit 3; }
cd /verif && VERIF_REPO=$W ./bin/check $P --no-evidence "$@" > /tmp/eval-$P-z.log 2>&1
rc=$?
grep "^violation:\|^check: property" /tmp/eval-$P-z.log | cut -c1-220 | head -6
echo "[$P/z] (benign) check exit code: $rc   (0 expected)"
