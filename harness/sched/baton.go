// Package sched is the deterministic goroutine scheduler used for C16.
//
// Exactly one task runs at any moment; which one is decided by the choice
// tape.  Tasks are parked and released with raw read/write system calls on
// per-task pipes, issued from //go:norace functions: the Go race detector
// models channels, sync, atomics and os-level I/O as synchronisation, but not
// raw system calls, so it keeps treating the tasks as concurrent and reports
// any unsynchronised conflicting access between them although the execution
// is strictly serial and replays exactly.
//
// All scheduler state lives in package-level variables that are only touched
// from //go:norace functions while holding the baton.
package sched

import (
	"os"
	"sync"
	"syscall"
	"time"
	"unsafe"

	"seehuhn.de/go/sfnt/zzverif/simhook"
	"seehuhn.de/go/sfnt/zzverif/tape"
)

type pipe struct{ r, w int }

var (
	tp       *tape.Tape
	pipes    []pipe // one per task; the last one belongs to the driver
	done     []bool
	cur      int
	switches int
	maxSw    int
	// trace records (task, step) at every switch.  Fixed-size arrays only:
	// maps and growing slices are instrumented inside the runtime and would
	// be reported as races of the scheduler itself.
	trace    [maxTrace]Switch
	traceLen int
	curOp    [maxTasks]int
	midOp    [maxTasks]bool
	overlap  [MaxOps][MaxOps]int // op pairs that overlapped mid-operation
	buf      [1]byte

	blockedYields int
	syncYields    int
)

const maxSyncYields = 400

const (
	maxTrace = 4096
	maxTasks = 16
	// MaxOps bounds the operation ids passed to BeginOp.
	MaxOps = 48
)

// Switch is one scheduling decision.
type Switch struct {
	From, To int
	Step     uint64
	Site     string
}

//go:norace
func rawRead(fd int) {
	for {
		n, _, e := syscall.Syscall(syscall.SYS_READ, uintptr(fd), uintptr(unsafe.Pointer(&buf[0])), 1)
		if e == syscall.EINTR {
			continue
		}
		if n == 1 {
			return
		}
		if e != 0 {
			panic("sched: pipe read failed: " + e.Error())
		}
	}
}

//go:norace
func rawWrite(fd int) {
	b := [1]byte{1}
	for {
		n, _, e := syscall.Syscall(syscall.SYS_WRITE, uintptr(fd), uintptr(unsafe.Pointer(&b[0])), 1)
		if e == syscall.EINTR {
			continue
		}
		if n == 1 {
			return
		}
		if e != 0 {
			panic("sched: pipe write failed: " + e.Error())
		}
	}
}

//go:norace
func nextGap() uint64 {
	// mostly long stretches (switch near operation boundaries), sometimes
	// short bursts of fine-grained interleaving
	switch tp.Draw(8) {
	case 0, 1, 2, 3:
		return uint64(2000 + tp.Draw(200000))
	case 4, 5:
		return uint64(50 + tp.Draw(3000))
	case 6:
		return uint64(1 + tp.Draw(40))
	}
	return uint64(100000 + tp.Draw(3000000))
}

// pickNext chooses the next runnable task (never the driver while a task
// remains).
//
//go:norace
func pickNext() int {
	var runnable [maxTasks]int
	k := 0
	for i := 0; i < len(done)-1; i++ {
		if !done[i] {
			runnable[k] = i
			k++
		}
	}
	if k == 0 {
		return len(done) - 1
	}
	return runnable[tp.Draw(k)]
}

// SwitchTo hands the baton to task `to` and parks the caller.
//
//go:norace
func switchTo(to int, site string) {
	from := cur
	if to == from {
		return
	}
	if traceLen < maxTrace {
		trace[traceLen] = Switch{From: from, To: to, Step: simhook.Steps, Site: site}
		traceLen++
	}
	switches++
	if from < maxTasks && to < maxTasks && from < len(done)-1 && to < len(done)-1 && midOp[from] && midOp[to] {
		overlap[curOp[from]][curOp[to]]++
	}
	cur = to
	rawWrite(pipes[to].w)
	rawRead(pipes[from].r)
}

// YieldPoint is called at operation boundaries and from simulated I/O.
//
//go:norace
func YieldPoint(site string) {
	if tp == nil {
		return
	}
	if switches >= maxSw && site == "tick" {
		simhook.Next = ^uint64(0)
		return
	}
	switchTo(pickNext(), site)
	simhook.Next = simhook.Steps + nextGap()
}

// blocked is installed as simhook.BlockedHook: the running task cannot take a
// lock (its holder is parked).  The baton goes to another task.
//
//go:norace
func blocked() {
	var others [maxTasks]int
	k := 0
	for i := 0; i < len(done)-1; i++ {
		if !done[i] && i != cur {
			others[k] = i
			k++
		}
	}
	if k == 0 {
		panic("sched: the only runnable task waits for a lock that nobody can release (deadlock in the code under test)")
	}
	blockedYields++
	switchTo(others[tp.Draw(k)], "blocked-on-lock")
}

// syncPoint is installed as simhook.SyncHook: before an atomic operation the
// tape decides (1 in 3) whether another task runs first.
//
//go:norace
func syncPoint() {
	if tp == nil || syncYields >= maxSyncYields {
		return
	}
	if tp.Draw(3) == 0 {
		syncYields++
		switchTo(pickNext(), "before-atomic")
	}
}

// onStep is installed as simhook.OnStep: a function-entry / loop yield.
//
//go:norace
func onStep() { YieldPoint("tick") }

// BeginOp / EndOp bracket one operation of the calling task.
//
//go:norace
func BeginOp(task int, opID int) {
	curOp[task] = opID % MaxOps
	midOp[task] = true
}

//go:norace
func EndOp(task int) {
	midOp[task] = false
	YieldPoint("op-boundary")
}

// Stats describes one concurrent phase.
type Stats struct {
	BlockedYields int
	Switches   int
	Overlaps   map[[2]int]int
	TraceHash  uint64
	TraceShort []Switch
}

// Run executes the task bodies under the deterministic scheduler and returns
// when all of them have finished.  body(i) must call BeginOp/EndOp around
// its operations.
func Run(t *tape.Tape, n int, maxSwitches int, body func(task int)) Stats {
	t.Reserve(1 << 16) // the scheduler must not grow the tape from a task
	setup(t, n, maxSwitches)
	stop := make(chan struct{})
	defer close(stop)
	go monitor(stop)
	var wg sync.WaitGroup // visible synchronisation for "everything finished"
	for i := 0; i < n; i++ {
		wg.Add(1)
		go func(i int) {
			defer wg.Done()
			taskMain(i, body)
		}(i)
	}
	drive(n)
	wg.Wait()
	return teardown()
}

// ExitBlocked is the exit status of a worker whose tasks block on each other
// through a synchronisation primitive the scheduler does not model (a
// channel, sync.Cond, sync.WaitGroup ...): the running task waits for a parked
// one, nothing can proceed.  This is a limitation of the harness, not a
// violation; the supervisor counts the case as inconclusive.
const ExitBlocked = 77

//go:norace
func progress() uint64 { return simhook.Steps + uint64(switches)<<40 }

func monitor(stop chan struct{}) {
	last := progress()
	idle := 0
	for {
		select {
		case <-stop:
			return
		case <-time.After(100 * time.Millisecond):
		}
		if p := progress(); p != last {
			last, idle = p, 0
			continue
		}
		idle++
		if idle >= 50 { // 5 s without a single step or switch
			os.Stderr.WriteString("SIM-BLOCKED: the running task made no progress for 5 s while other tasks are parked: it waits for a parked task through a primitive the scheduler does not model\n")
			os.Exit(ExitBlocked)
		}
	}
}

//go:norace
func setup(t *tape.Tape, n int, maxSwitches int) {
	tp = t
	pipes = make([]pipe, n+1)
	for i := range pipes {
		var fds [2]int
		if err := syscall.Pipe(fds[:]); err != nil {
			panic(err)
		}
		pipes[i] = pipe{fds[0], fds[1]}
	}
	if n > maxTasks-1 {
		panic("sched: too many tasks")
	}
	done = make([]bool, n+1)
	curOp = [maxTasks]int{}
	midOp = [maxTasks]bool{}
	overlap = [MaxOps][MaxOps]int{}
	traceLen = 0
	switches = 0
	blockedYields = 0
	syncYields = 0
	maxSw = maxSwitches
	cur = n // the driver holds the baton
}

//go:norace
func taskMain(i int, body func(int)) {
	rawRead(pipes[i].r) // wait to be scheduled for the first time
	body(i)
	finish(i)
}

//go:norace
func finish(i int) {
	done[i] = true
	to := pickNext()
	if traceLen < maxTrace {
		trace[traceLen] = Switch{From: i, To: to, Step: simhook.Steps, Site: "task-end"}
		traceLen++
	}
	cur = to
	rawWrite(pipes[to].w)
}

//go:norace
func drive(n int) {
	simhook.Steps = 0
	simhook.OnStep = onStep
	simhook.BlockedHook = blocked
	simhook.SyncHook = syncPoint
	simhook.Next = nextGap()
	first := pickNext()
	cur = first
	rawWrite(pipes[first].w)
	rawRead(pipes[n].r) // until the last task hands the baton back
	simhook.Next = ^uint64(0)
	simhook.OnStep = nil
	simhook.BlockedHook = nil
	simhook.SyncHook = nil
}

//go:norace
func teardown() Stats {
	st := Stats{Switches: switches, Overlaps: map[[2]int]int{}, BlockedYields: blockedYields}
	for a := range overlap {
		for b := range overlap[a] {
			if overlap[a][b] > 0 {
				st.Overlaps[[2]int{a, b}] = overlap[a][b]
			}
		}
	}
	h := uint64(14695981039346656037)
	for _, s := range trace[:traceLen] {
		h = tape.Mix(h ^ uint64(s.From)<<32 ^ uint64(s.To)<<16 ^ s.Step)
	}
	st.TraceHash = h
	k := traceLen
	if k > 60 {
		k = 60
	}
	st.TraceShort = append([]Switch(nil), trace[:k]...)
	for _, p := range pipes {
		syscall.Close(p.r)
		syscall.Close(p.w)
	}
	tp = nil
	return st
}
