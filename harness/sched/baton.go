// Package sched is the deterministic goroutine scheduler used for C16.
//
// Exactly one task runs at any moment; which one is decided by the choice
// tape.  Tasks are parked and released with raw read/write system calls on
// per-task pipes, issued from //go:norace functions: the Go race detector
// models channels, sync, atomics and os-level I/O as synchronisation, but not
// raw system calls, so it keeps treating the tasks as concurrent and reports
// any unsynchronised conflicting access between them although the execution
// is strictly serial and replays exactly.
//
// Goroutines started by the library itself (rewritten `go` statements) become
// tasks too; channels and wait groups of repository code are virtual
// (package simhook), mutexes are taken with TryLock + yield, so no task ever
// blocks inside the Go runtime and "nobody can run" is a deadlock the
// scheduler sees and reports (exit status ExitDeadlock).
//
// All scheduler state lives in fixed-size package-level arrays that are only
// touched from //go:norace functions while holding the baton: maps and growing
// slices are instrumented inside the runtime and would be reported as races
// of the scheduler itself.
package sched

import (
	"os"
	"strconv"
	"sync"
	"syscall"
	"time"
	"unsafe"

	"seehuhn.de/go/sfnt/zzverif/simhook"
	"seehuhn.de/go/sfnt/zzverif/tape"
)

const (
	maxTasks = 64
	maxTrace = 4096
	// MaxOps bounds the operation ids passed to BeginOp.
	MaxOps = 48
	// ExitBlocked: the running task waits for a parked one through a
	// primitive the scheduler does not model (select, sync.Cond ...).  A
	// limitation of the harness: the supervisor counts the case as
	// inconclusive.
	ExitBlocked = 77
	// ExitDeadlock: every unfinished task is blocked on a modelled primitive
	// (channel, wait group, mutex): a deadlock of the code under test.
	ExitDeadlock = 78

	stUnused = 0
	stReady  = 1
	stBlock  = 2
	stDone   = 3

	maxSyncYields = 400
	// in "sync-only" cases (syncMode 1) tasks switch at every
	// synchronisation operation and nowhere else
	maxSyncYieldsSyncOnly = 6000
)

// syncMode is drawn once per case: 0 = a task switch before one in three
// synchronisation operations plus step-counter switches (the default);
// 1 = "sync-only": a switch before every synchronisation operation (atomic,
// lock, Once, channel operation) and none anywhere else, which drives every
// task up to its next synchronisation operation before any task passes one -
// the schedule that semaphore, lock-order and check-then-act windows need.
var syncMode int

type pipe struct{ r, w int }

// Switch is one scheduling decision.
type Switch struct {
	From, To int
	Step     uint64
	Site     string
}

var (
	tp         *tape.Tape
	pipes      [maxTasks]pipe
	state      [maxTasks]int
	blockedOn  [maxTasks]string
	nTasks     int
	driverPipe pipe
	cur        int // running task; -1: the driver
	switches   int
	maxSw      int
	trace      [maxTrace]Switch
	traceLen   int
	curOp      [maxTasks]int
	midOp      [maxTasks]bool
	overlap    [MaxOps][MaxOps]int
	buf        [1]byte

	nInitial      int
	leftBlocked   int
	blockedYields int
	lockSpins     int
	syncYields    int
	spawned       int
	chanBlocks    int
)

//go:norace
func rawRead(fd int) {
	for {
		n, _, e := syscall.Syscall(syscall.SYS_READ, uintptr(fd), uintptr(unsafe.Pointer(&buf[0])), 1)
		if e == syscall.EINTR {
			continue
		}
		if n == 1 {
			return
		}
		if e != 0 {
			panic("sched: pipe read failed: " + e.Error())
		}
	}
}

//go:norace
func rawWrite(fd int) {
	b := [1]byte{1}
	for {
		n, _, e := syscall.Syscall(syscall.SYS_WRITE, uintptr(fd), uintptr(unsafe.Pointer(&b[0])), 1)
		if e == syscall.EINTR {
			continue
		}
		if n == 1 {
			return
		}
		if e != 0 {
			panic("sched: pipe write failed: " + e.Error())
		}
	}
}

//go:norace
func nextGap() uint64 {
	// mostly long stretches (switch near operation boundaries), sometimes
	// short bursts of fine-grained interleaving
	switch tp.Draw(8) {
	case 0, 1, 2, 3:
		return uint64(2000 + tp.Draw(200000))
	case 4, 5:
		return uint64(50 + tp.Draw(3000))
	case 6:
		return uint64(1 + tp.Draw(40))
	}
	return uint64(100000 + tp.Draw(3000000))
}

//go:norace
func record(from, to int, site string) {
	if traceLen < maxTrace {
		trace[traceLen] = Switch{From: from, To: to, Step: simhook.Steps, Site: site}
		traceLen++
	}
}

// deadlock reports that no task can run and ends the process.
//
//go:norace
func deadlock(why string) {
	msg := "SIM-DEADLOCK: " + why + "; blocked tasks:"
	for i := 0; i < nTasks; i++ {
		if state[i] == stBlock {
			msg += " [task " + strconv.Itoa(i) + ": " + blockedOn[i] + "]"
		}
	}
	os.Stderr.WriteString(msg + "\n")
	os.Exit(ExitDeadlock)
}

// pickNext chooses the next ready task other than exclude (the tape
// decides); if only exclude is ready it is returned; -1 = the driver (all
// tasks done).  Unfinished tasks of which none is ready are a deadlock.
//
//go:norace
func pickNext(exclude int) int {
	var ready [maxTasks]int
	k := 0
	blocked := 0
	for i := 0; i < nTasks; i++ {
		switch state[i] {
		case stReady:
			if i != exclude {
				ready[k] = i
				k++
			}
		case stBlock:
			blocked++
		}
	}
	if k == 0 {
		if exclude >= 0 && state[exclude] == stReady {
			return exclude
		}
		if blocked > 0 {
			// Only a caller that cannot finish is a deadlock of the property:
			// goroutines the library started and left waiting (a worker pool
			// waiting for jobs) are counted, not judged.
			for i := 0; i < nInitial; i++ {
				if state[i] == stBlock {
					deadlock("every unfinished task waits for another one")
				}
			}
			leftBlocked = blocked
		}
		return -1
	}
	return ready[tp.Draw(k)]
}

//go:norace
func pipeOf(i int) pipe {
	if i < 0 {
		return driverPipe
	}
	return pipes[i]
}

// switchTo hands the baton to task `to` and parks the caller.
//
//go:norace
func switchTo(to int, site string) {
	from := cur
	if to == from {
		return
	}
	record(from, to, site)
	switches++
	if from >= 0 && to >= 0 && midOp[from] && midOp[to] {
		overlap[curOp[from]][curOp[to]]++
	}
	cur = to
	rawWrite(pipeOf(to).w)
	rawRead(pipeOf(from).r)
}

// YieldPoint is called at operation boundaries and from simulated I/O.
//
//go:norace
func YieldPoint(site string) {
	if tp == nil || cur < 0 {
		return
	}
	if switches >= maxSw && site == "tick" {
		simhook.Next = ^uint64(0)
		return
	}
	lockSpins = 0
	if syncMode == 1 && site == "tick" {
		simhook.Next = ^uint64(0)
		return
	}
	switchTo(pickNext(-1), site)
	simhook.Next = simhook.Steps + nextGap()
}

//go:norace
func onStep() { YieldPoint("tick") }

// blocked is installed as simhook.BlockedHook: the running task cannot take a
// mutex (its holder is parked).  The baton goes to another ready task.
//
//go:norace
func blocked() {
	if tp == nil || cur < 0 {
		return
	}
	lockSpins++
	if lockSpins > 200000 {
		blockedOn[cur] = "mutex (spinning)"
		state[cur] = stBlock
		deadlock("a task spins on a mutex that is never released")
	}
	other := pickNext(cur)
	if other == cur || other < 0 {
		blockedOn[cur] = "mutex"
		state[cur] = stBlock
		deadlock("the only runnable task waits for a mutex that nobody can release")
	}
	blockedYields++
	switchTo(other, "blocked-on-mutex")
}

// syncPoint is installed as simhook.SyncHook: before an atomic operation the
// tape decides (1 in 3) whether another task runs first.
//
//go:norace
func syncPoint() {
	if tp == nil || cur < 0 {
		return
	}
	if syncMode == 1 {
		if syncYields < maxSyncYieldsSyncOnly {
			syncYields++
			switchTo(pickNext(-1), "before-sync")
		}
		return
	}
	if syncYields >= maxSyncYields {
		return
	}
	if tp.Draw(3) == 0 {
		syncYields++
		switchTo(pickNext(-1), "before-atomic")
	}
}

// BeginOp / EndOp bracket one operation of the calling task.
//
//go:norace
func BeginOp(task int, opID int) {
	curOp[task] = opID % MaxOps
	midOp[task] = true
}

//go:norace
func EndOp(task int) {
	midOp[task] = false
	YieldPoint("op-boundary")
}

// ---- simhook.Scheduler ----------------------------------------------------------------

type impl struct{}

//go:norace
func newTask() int {
	if nTasks == maxTasks {
		panic("sched: too many tasks")
	}
	k := nTasks
	var fds [2]int
	if err := syscall.Pipe(fds[:]); err != nil {
		panic(err)
	}
	pipes[k] = pipe{fds[0], fds[1]}
	state[k] = stReady
	midOp[k] = false
	nTasks++
	return k
}

// PreGo reserves a task for a goroutine the library is about to start.
//
//go:norace
func (impl) PreGo() int {
	spawned++
	return newTask()
}

// Enter parks the new goroutine until it is scheduled for the first time.
//
//go:norace
func (impl) Enter(k int) { rawRead(pipes[k].r) }

// Exit ends task k.
//
//go:norace
func (impl) Exit(k int) { finish(k) }

// Current returns the running task.
//
//go:norace
func (impl) Current() int { return cur }

// Wake makes a blocked task ready.
//
//go:norace
func (impl) Wake(k int) {
	if k >= 0 && k < nTasks && state[k] == stBlock {
		state[k] = stReady
	}
}

// Block parks the running task until another task wakes it.
//
//go:norace
func (impl) Block(what string) {
	me := cur
	state[me] = stBlock
	blockedOn[me] = what
	chanBlocks++
	lockSpins = 0
	next := pickNext(me) // ends the process if nobody can run
	if next < 0 || next == me {
		deadlock("the last running task blocks")
	}
	switchTo(next, "blocked:"+what)
}

// Stats describes one concurrent phase.
type Stats struct {
	LeftBlocked   int // library goroutines still waiting when all callers had returned
	Switches      int
	BlockedYields int
	ChanBlocks    int
	Spawned       int
	SyncOnly      bool // the case ran in "sync-only" mode
	SyncYields    int  // task switches placed before a synchronisation operation
	Overlaps      map[[2]int]int
	TraceHash     uint64
	TraceShort    []Switch
}

// Run executes the task bodies under the deterministic scheduler and returns
// when all of them (and every goroutine they started) have finished.
// body(i) must call BeginOp/EndOp around its operations.
func Run(t *tape.Tape, n int, maxSwitches int, body func(task int)) Stats {
	t.Reserve(1 << 16) // the scheduler must not grow the tape from a task
	setup(t, n, maxSwitches)
	stop := make(chan struct{})
	defer close(stop)
	go monitor(stop)
	var wg sync.WaitGroup // visible synchronisation for "everything finished"
	for i := 0; i < n; i++ {
		wg.Add(1)
		go func(i int) {
			defer wg.Done()
			taskMain(i, body)
		}(i)
	}
	drive()
	wg.Wait()
	return teardown()
}

//go:norace
func progress() uint64 { return simhook.Steps + uint64(switches)<<40 }

func monitor(stop chan struct{}) {
	last := progress()
	idle := 0
	for {
		select {
		case <-stop:
			return
		case <-time.After(100 * time.Millisecond):
		}
		if p := progress(); p != last {
			last, idle = p, 0
			continue
		}
		idle++
		if idle >= 50 { // 5 s without a single step or switch
			os.Stderr.WriteString("SIM-BLOCKED: the running task made no progress for 5 s while other tasks are parked: it waits for a parked task through a primitive the scheduler does not model\n")
			os.Exit(ExitBlocked)
		}
	}
}

//go:norace
func setup(t *tape.Tape, n int, maxSwitches int) {
	if n > maxTasks/2 {
		panic("sched: too many tasks")
	}
	tp = t
	nTasks = 0
	for i := range state {
		state[i] = stUnused
	}
	var fds [2]int
	if err := syscall.Pipe(fds[:]); err != nil {
		panic(err)
	}
	driverPipe = pipe{fds[0], fds[1]}
	for i := 0; i < n; i++ {
		newTask()
	}
	nInitial = n
	leftBlocked = 0
	curOp = [maxTasks]int{}
	overlap = [MaxOps][MaxOps]int{}
	traceLen = 0
	switches, blockedYields, syncYields, lockSpins, spawned, chanBlocks = 0, 0, 0, 0, 0, 0
	maxSw = maxSwitches
	cur = -1 // the driver holds the baton
	syncMode = 0
	if t.Chance(1, 3) {
		syncMode = 1
	}
	simhook.ResetVirtual()
}

//go:norace
func taskMain(i int, body func(int)) {
	rawRead(pipes[i].r) // wait to be scheduled for the first time
	body(i)
	finish(i)
}

//go:norace
func finish(i int) {
	state[i] = stDone
	midOp[i] = false
	to := pickNext(-1)
	record(i, to, "task-end")
	cur = to
	rawWrite(pipeOf(to).w)
}

//go:norace
func drive() {
	simhook.Steps = 0
	simhook.OnStep = onStep
	simhook.BlockedHook = blocked
	simhook.SyncHook = syncPoint
	simhook.Sched = impl{}
	simhook.Next = nextGap()
	first := pickNext(-1)
	cur = first
	rawWrite(pipes[first].w)
	rawRead(driverPipe.r) // until the last task hands the baton back
	simhook.Next = ^uint64(0)
	simhook.OnStep = nil
	simhook.BlockedHook = nil
	simhook.SyncHook = nil
	simhook.Sched = nil
}

//go:norace
func teardown() Stats {
	st := Stats{LeftBlocked: leftBlocked, Switches: switches, Overlaps: map[[2]int]int{}, BlockedYields: blockedYields, ChanBlocks: chanBlocks, Spawned: spawned, SyncOnly: syncMode == 1, SyncYields: syncYields}
	for a := range overlap {
		for b := range overlap[a] {
			if overlap[a][b] > 0 {
				st.Overlaps[[2]int{a, b}] = overlap[a][b]
			}
		}
	}
	h := uint64(14695981039346656037)
	for _, s := range trace[:traceLen] {
		h = tape.Mix(h ^ uint64(s.From+1)<<32 ^ uint64(s.To+1)<<16 ^ s.Step)
	}
	st.TraceHash = h
	k := traceLen
	if k > 60 {
		k = 60
	}
	st.TraceShort = append([]Switch(nil), trace[:k]...)
	for i := 0; i < nTasks; i++ {
		syscall.Close(pipes[i].r)
		syscall.Close(pipes[i].w)
	}
	syscall.Close(driverPipe.r)
	syscall.Close(driverPipe.w)
	tp = nil
	return st
}
