// Worker for C02: every decoder under the stored-data fault catalogue applied
// to artefacts the library itself wrote, served through simulated readers
// (short reads in half of the cases), with a deterministic step budget and an
// allocation meter; accepted values go through the accessor battery.
package main

import (
	"bytes"
	"fmt"
	"io"
	"runtime"

	"golang.org/x/text/language"

	"seehuhn.de/go/sfnt"
	"seehuhn.de/go/sfnt/cff"
	"seehuhn.de/go/sfnt/cmap"
	"seehuhn.de/go/sfnt/glyf"
	"seehuhn.de/go/sfnt/glyph"
	"seehuhn.de/go/sfnt/head"
	"seehuhn.de/go/sfnt/header"
	"seehuhn.de/go/sfnt/hmtx"
	"seehuhn.de/go/sfnt/kern"
	"seehuhn.de/go/sfnt/maxp"
	"seehuhn.de/go/sfnt/name"
	"seehuhn.de/go/sfnt/opentype/classdef"
	"seehuhn.de/go/sfnt/opentype/coverage"
	"seehuhn.de/go/sfnt/opentype/gdef"
	"seehuhn.de/go/sfnt/opentype/gtab"
	"seehuhn.de/go/sfnt/os2"
	"seehuhn.de/go/sfnt/parser"
	"seehuhn.de/go/sfnt/post"
	"seehuhn.de/go/sfnt/zzverif/simgen"
	"seehuhn.de/go/sfnt/zzverif/simhook"
	"seehuhn.de/go/sfnt/zzverif/simio"
	"seehuhn.de/go/sfnt/zzverif/tape"
	"seehuhn.de/go/sfnt/zzverif/wk"
)

type artefact struct {
	name   string
	file   []byte
	tables map[string][]byte
	// byte ranges of small structures located inside tables["CFF "]
	// (FDSelect), at which some of the faults are aimed
	cffRegions [][2]int
}

var pool []*artefact

func tablesOf(b []byte) map[string][]byte {
	dir, err := simgen.ParseDirectory(b)
	if err != nil {
		panic(err)
	}
	m := map[string][]byte{}
	for _, e := range dir.Entries {
		m[e.Tag] = b[e.Offset : e.Offset+e.Length]
	}
	return m
}

func writeFont(f *sfnt.Font) []byte {
	w := simio.NewWriter()
	if _, err := f.Write(w); err != nil {
		panic(fmt.Sprintf("worker: fault-free write failed: %v", err))
	}
	return w.Disk
}

func setup(tier string, seed uint64) {
	add := func(name string, b []byte) {
		pool = append(pool, &artefact{name: name, file: b, tables: tablesOf(b)})
	}
	for i := 0; i < 12; i++ {
		add(simgen.GoFontNames[i], simgen.GoFontData(i))
	}
	add("goregular-as-cff", writeFont(simgen.ToCFF(simgen.ReadGoFont(0), false)))
	add("gomono-as-cid", writeFont(simgen.ToCFF(simgen.ReadGoFont(6), true)))
	for i := 0; i < 24; i++ {
		t := tape.New(tape.CaseSeed(seed, "C02-corpus", uint64(i)))
		f := simgen.GenFont(t, simgen.Kind(i%3), i%2)
		if i%4 == 1 {
			simgen.GenCMapMode(t, f, 1) // a format 12 character map
		}
		simgen.AddLayoutTables(t, f)
		k := kern.Info{}
		for j := 0; j < 5; j++ {
			k[glyph.Pair{Left: glyph.ID(j), Right: glyph.ID(j + 1)}] = 10
		}
		b := writeFont(f)
		a := &artefact{name: fmt.Sprintf("gen%02d", i), file: b, tables: tablesOf(b)}
		a.tables["kern"] = k.Encode()
		if o, ok := f.Outlines.(*cff.Outlines); ok && o.IsCIDKeyed() {
			enc := simgen.FDSelect3(func(g int) int { return o.FDSelect(glyph.ID(g)) }, len(o.Glyphs))
			if len(enc) >= len(o.Glyphs)+1 {
				// the writer prefers format 0: one byte per glyph
				enc = make([]byte, len(o.Glyphs)+1)
				for g := range o.Glyphs {
					enc[g+1] = byte(o.FDSelect(glyph.ID(g)))
				}
			}
			if at := bytes.Index(a.tables["CFF "], enc); at >= 0 && len(enc) > 8 {
				a.cffRegions = append(a.cffRegions, [2]int{at, at + len(enc)})
			}
		}
		pool = append(pool, a)
	}
	// CID-keyed fonts whose glyphs are assigned to two or three font
	// dictionaries in runs (FDSelect format 3 with several ranges)
	for i := 0; i < 6; i++ {
		t := tape.New(tape.CaseSeed(seed, "C02-cid-runs", uint64(i)))
		f := simgen.GenFont(t, simgen.KindCID, i%2)
		o := f.Outlines.(*cff.Outlines)
		for len(o.Private) < 2+i%2 {
			o.Private = append(o.Private, o.Private[0])
			o.FontMatrices = append(o.FontMatrices, o.FontMatrices[0])
		}
		n := len(o.Glyphs)
		sel := make([]int, n)
		fd, left := 0, 0
		for g := range sel {
			if left == 0 {
				left = t.Range(2, 12)
				fd = (fd + 1 + t.Draw(len(o.Private)-1)) % len(o.Private)
			}
			left--
			sel[g] = fd
		}
		o.FDSelect = func(g glyph.ID) int { return sel[g] }
		b := writeFont(f)
		a := &artefact{name: fmt.Sprintf("cid-runs%02d", i), file: b, tables: tablesOf(b)}
		enc := simgen.FDSelect3(func(g int) int { return sel[g] }, n)
		if at := bytes.Index(a.tables["CFF "], enc); at >= 0 && len(enc) > 8 && len(enc) < n+1 {
			a.cffRegions = append(a.cffRegions, [2]int{at, at + len(enc)})
		}
		pool = append(pool, a)
	}
	nLocated := 0
	for _, a := range pool {
		nLocated += len(a.cffRegions)
	}
	if nLocated == 0 {
		panic("worker: no FDSelect structure located in the corpus")
	}
	// offset-sharing GSUB tables assembled by hand: many lookup records that
	// share one lookup table (small file, large decoded structure)
	for i, nl := range []int{3, 400, 2990, 2999, 3001, 5998, 6002, 6552, 7000, 7001, 12000, 30000} {
		for _, mf := range []bool{false, true} {
			if nl < 5000 && mf != (i%2 == 0) {
				continue
			}
			sub := i % 3 // lookups without subtables are legal, too
			tab := simgen.AliasBomb(nl, sub, mf)
			w := simio.NewWriter()
			if _, err := header.Write(w, header.ScalerTypeTrueType, map[string][]byte{"GSUB": tab}); err != nil {
				panic(err)
			}
			pool = append(pool, &artefact{name: fmt.Sprintf("gsub-%d-lookups-sharing-one-table(%d subtables,mark filtering %v)", nl, sub, mf),
				file: w.Disk, tables: map[string][]byte{"GSUB": tab}})
		}
	}
	// valid files in unusual but accepted shapes: optional tables missing
	// (Read accepts CFF fonts without maxp/head/hmtx/OS/2/post/name and
	// TrueType fonts without hmtx/OS/2/post/name/cmap)
	for i := 0; i < 16; i++ {
		t := tape.New(tape.CaseSeed(seed, "C02-dropped", uint64(i)))
		src := pool[14+i%24]
		dir, _ := simgen.ParseDirectory(src.file)
		tables := map[string][]byte{}
		for tag, data := range src.tables {
			if len(tag) == 4 {
				tables[tag] = data
			}
		}
		delete(tables, "kern")
		optional := []string{"hmtx", "OS/2", "post", "name", "cmap", "hhea", "GDEF"}
		if _, isCFF := tables["CFF "]; isCFF {
			optional = append(optional, "maxp", "head")
		}
		dropped := 0
		for _, tag := range optional {
			if _, ok := tables[tag]; ok && t.Chance(1, 3) {
				delete(tables, tag)
				dropped++
			}
		}
		if dropped == 0 {
			delete(tables, optional[t.Draw(len(optional))])
		}
		if i%3 == 0 {
			// a character map that refers to glyphs beyond the end of the
			// glyph list (nothing in the container format prevents it), in a
			// font without OS/2 table, so that Read has to consult the cmap
			// for its fallbacks
			if g, err := sfnt.Read(bytes.NewReader(src.file)); err == nil {
				n := g.NumGlyphs()
				m := cmap.Format4{}
				for k, r := range "HxAfil .aMO" {
					m[uint16(r)] = glyph.ID(n - 3 + k)
				}
				g.InstallCMap(m)
				tables["cmap"] = g.CMapTable.Encode()
				delete(tables, "OS/2")
			}
		}
		w := simio.NewWriter()
		if _, err := header.Write(w, dir.Scaler, tables); err != nil {
			panic(err)
		}
		add(fmt.Sprintf("%s-tables-dropped", src.name), w.Disk)
	}
	// hand-assembled CFF tables with subroutines (the library's writer emits
	// none); the undamaged artefact must be readable
	for i := 0; i < 8; i++ {
		t := tape.New(tape.CaseSeed(seed, "C02-handcff", uint64(i)))
		data := simgen.HandCFF(t)
		if _, err := cff.Read(bytes.NewReader(data)); err != nil {
			panic(fmt.Sprintf("worker: hand-made CFF %d is rejected by cff.Read: %v", i, err))
		}
		handCFF = append(handCFF, data)
	}
	// hand-assembled CID-keyed CFF tables; the plain ones must be readable,
	// the ones with integer operands written as reals may be refused
	for i := 0; i < 12; i++ {
		t := tape.New(tape.CaseSeed(seed, "C02-handcid", uint64(i)))
		reals := i%2 == 1
		data := simgen.HandCID(t, reals)
		if !reals {
			if _, err := cff.Read(bytes.NewReader(data)); err != nil {
				panic(fmt.Sprintf("worker: hand-made CID-keyed CFF %d is rejected by cff.Read: %v", i, err))
			}
		}
		handCFF = append(handCFF, data)
	}
	for _, f := range simhookAfterSetup {
		f(seed)
	}
}

var handCFF [][]byte

func init() {
	simhookAfterSetup = append(simhookAfterSetup, func(seed uint64) {
		// charstrings that compute extreme operands for roll/index (may be refused)
		for i := 0; i < 8; i++ {
			t := tape.New(tape.CaseSeed(seed, "C02-handcff-extreme", uint64(i)))
			handCFF = append(handCFF, simgen.HandCFFExtreme(t, 1+i%4))
		}
	})
}

var simhookAfterSetup []func(seed uint64)

var handCmap []struct {
	name string
	data []byte
}

func init() {
	for _, n := range []int{2, 40, 900, 4000} {
		for _, share := range []bool{true, false} {
			handCmap = append(handCmap, struct {
				name string
				data []byte
			}{fmt.Sprintf("hand-made cmap: %d records, shared subtable %v", n+1, share), simgen.CmapOverlap(n, share)})
		}
	}
}

var decoders = []string{"sfnt.Read", "sfnt.Read(streaming)", "header.Read", "cff.Read", "cmap.Decode", "glyf.Decode", "gtab.Read(GSUB)", "gtab.Read(GPOS)",
	"gdef.Read", "coverage.Read", "coverage.ReadSet", "classdef.Read", "name.Decode", "head.Read", "hmtx.Decode", "maxp.Read", "os2.Read", "post.Read", "kern.Read"}

var tagFor = map[string]string{"cff.Read": "CFF ", "cmap.Decode": "cmap", "gtab.Read(GSUB)": "GSUB", "gtab.Read(GPOS)": "GPOS", "gdef.Read": "GDEF",
	"name.Decode": "name", "head.Read": "head", "maxp.Read": "maxp", "os2.Read": "OS/2", "post.Read": "post", "kern.Read": "kern"}

// pick returns an artefact that has the given table.
func pick(t *tape.Tape, tag string) *artefact {
	start := t.Draw(len(pool))
	for i := 0; i < len(pool); i++ {
		a := pool[(start+i)%len(pool)]
		if tag == "" || a.tables[tag] != nil {
			return a
		}
	}
	return nil
}

func damage(c *wk.Case, data []byte, other []byte) []byte {
	t := c.T
	switch t.Weighted(1, 12, 1) {
	case 0:
		c.Count("undamaged", 1)
		return data
	case 2:
		c.Count("fault_all-random", 1)
		return t.Bytes(t.Range(0, 300))
	}
	nf := 1 + t.Weighted(6, 2, 1)
	for i := 0; i < nf; i++ {
		var f simgen.Fault
		data, f = simgen.Corrupt(t, data, 0, len(data), other)
		c.Count("fault_"+f.Kind, 1)
		c.Logf("fault: %v", f)
	}
	return data
}

type meter struct {
	before runtime.MemStats
}

func (m *meter) start() { runtime.ReadMemStats(&m.before) }
func (m *meter) delta() uint64 {
	var after runtime.MemStats
	runtime.ReadMemStats(&after)
	return after.TotalAlloc - m.before.TotalAlloc
}

// guarded runs one decoder call with the panic, step and allocation oracles.
func guarded(c *wk.Case, dec string, inputLen int, fn func()) {
	budget := uint64(200_000_000 + 10_000*inputLen)
	var m meter
	m.start()
	pi := c.Guard(func() {
		wk.Budget(budget)
		fn()
	})
	simhook.Next = ^uint64(0)
	alloc := m.delta()
	if pi != nil {
		c.FailPanic(dec, pi)
	}
	limit := uint64(64<<20 + 1024*inputLen)
	if alloc > limit {
		c.Fail("allocation", dec, "%s allocated %d bytes for an input of %d bytes (bound %d)", dec, alloc, inputLen, limit)
	}
}

func rss(c *wk.Case, data []byte) *simio.ReadSeekSizer {
	var t *tape.Tape
	if c.T.Chance(1, 2) {
		t = c.T
	}
	return simio.NewReadSeekSizer(data, t)
}

func fontBattery(c *wk.Case, f *sfnt.Font, inputLen int) {
	n := 0
	c.MustNotPanic("accessors/NumGlyphs", func() { n = f.NumGlyphs() })
	c.MustNotPanic("accessors/Widths", func() { f.Widths(); f.WidthsPDF(); f.IsFixedPitch() })
	c.MustNotPanic("accessors/GlyphBBoxes", func() { f.GlyphBBoxes(); f.FontBBox(); f.FontBBoxPDF() })
	probes := []int{0, n - 1, n / 2}
	for i := 0; i < 8 && n > 0; i++ {
		probes = append(probes, c.T.Draw(n))
	}
	for _, g := range probes {
		if g < 0 || g >= n {
			continue
		}
		gid := glyph.ID(g)
		c.MustNotPanic("accessors/GlyphWidth", func() { f.GlyphWidth(gid); f.GlyphWidthPDF(gid); f.GlyphBBox(gid) })
	}
	cmapBattery(c, f.CMapTable, inputLen)
	if o, ok := f.Outlines.(*glyf.Outlines); ok {
		glyfBattery(c, o.Glyphs)
	}
	c.MustNotPanic("accessors/Write", func() {
		wk.Budget(2_000_000_000)
		f.Write(io.Discard)
	})
	simhook.Next = ^uint64(0)
}

func cmapBattery(c *wk.Case, tab cmap.Table, inputLen int) {
	if tab == nil {
		return
	}
	var subs []cmap.Subtable
	for key := range tab {
		key := key
		c.MustNotPanic("accessors/cmap.Get", func() {
			if s, err := tab.Get(key); err == nil && s != nil {
				subs = append(subs, s)
			}
		})
	}
	c.MustNotPanic("accessors/cmap.GetBest", func() {
		if s, err := tab.GetBest(); err == nil && s != nil {
			subs = append(subs, s)
		}
	})
	for _, s := range subs {
		s := s
		c.MustNotPanic("accessors/cmap.Lookup", func() {
			lo, hi := s.CodeRange()
			for _, r := range []rune{0, 0x20, 0x41, 0xFFFF, 0x10000, 0x10FFFF, lo, hi, lo - 1, hi + 1, (lo + hi) / 2} {
				if r >= 0 && r <= 0x10FFFF {
					s.Lookup(r)
				}
			}
			for i := 0; i < 8; i++ {
				s.Lookup(rune(c.T.Draw(0x110000)))
			}
		})
	}
	// re-encoding: the subtables of an accepted table are disjoint or
	// identical pieces of the input, so what Encode builds is bounded by the
	// input size like the decoding itself
	var m meter
	m.start()
	c.MustNotPanic("accessors/cmap.Encode", func() { tab.Encode() })
	if alloc, limit := m.delta(), uint64(64<<20+1024*inputLen); alloc > limit {
		c.Fail("allocation", "accessors/cmap.Encode", "re-encoding the character map decoded from an input of %d bytes allocated %d bytes (bound %d); the table has %d subtables", inputLen, alloc, limit, len(tab))
	}
}

func glyfBattery(c *wk.Case, gg glyf.Glyphs) {
	for i, g := range gg {
		if g == nil {
			continue
		}
		if i > 4000 {
			break
		}
		g := g
		c.MustNotPanic("accessors/SimpleGlyph.Decode", func() {
			if sg, ok := g.Data.(glyf.SimpleGlyph); ok {
				sg.Decode()
			}
			g.Components()
		})
	}
	c.MustNotPanic("accessors/glyf.Encode", func() { gg.Encode() })
}

func run(c *wk.Case) {
	t := c.T
	dec := decoders[t.Draw(len(decoders))]
	c.Count("decoder_"+dec, 1)
	accepted := false
	var input []byte
	switch dec {
	case "sfnt.Read", "sfnt.Read(streaming)":
		a := pick(t, "")
		var faults []simgen.Fault
		if t.Chance(1, 12) {
			input = t.Bytes(t.Range(0, 400))
			c.Count("fault_all-random", 1)
		} else {
			input, faults = simgen.CorruptFile(t, a.file, pool[t.Draw(len(pool))].file)
			for _, f := range faults {
				c.Count("fault_"+f.Kind, 1)
			}
		}
		c.Logf("%s on %s (%d bytes), faults %v", dec, a.name, len(input), faults)
		var f *sfnt.Font
		var err error
		guarded(c, dec, len(input), func() {
			if dec == "sfnt.Read" {
				f, err = sfnt.Read(bytes.NewReader(input))
			} else {
				f, err = sfnt.Read(simio.NewReader(input, c.T))
			}
		})
		if err == nil && f != nil {
			accepted = true
			fontBattery(c, f, len(input))
		}
	case "header.Read":
		a := pick(t, "")
		hdr := 12 + 16*len(a.tables)
		input, _ = simgen.Corrupt(t, a.file, 0, hdr, nil)
		c.Logf("%s on %s", dec, a.name)
		var dir *header.Info
		var err error
		ra := simio.NewReaderAt(input)
		ra.EOFStyle = t.Draw(2)
		guarded(c, dec, len(input), func() { dir, err = header.Read(ra) })
		if err == nil && dir != nil {
			accepted = true
			for tag := range dir.Toc {
				tag := tag
				guarded(c, "header.ReadTableBytes", len(input), func() { dir.ReadTableBytes(ra, tag) })
			}
		}
	case "glyf.Decode":
		a := pick(t, "glyf")
		glyfData := a.tables["glyf"]
		locaData := a.tables["loca"]
		hd, _ := head.Read(bytes.NewReader(a.tables["head"]))
		format := int16(0)
		if hd != nil {
			format = hd.LocaFormat
		}
		if t.Chance(1, 2) {
			glyfData = damage(c, glyfData, nil)
		} else {
			locaData = damage(c, locaData, nil)
		}
		if t.Chance(1, 8) {
			format = 1 - format
		}
		input = glyfData
		c.Logf("%s on %s glyf %d bytes loca %d bytes format %d", dec, a.name, len(glyfData), len(locaData), format)
		var gg glyf.Glyphs
		var err error
		guarded(c, dec, len(glyfData)+len(locaData), func() {
			gg, err = glyf.Decode(&glyf.Encoded{GlyfData: glyfData, LocaData: locaData, LocaFormat: format})
		})
		if err == nil {
			accepted = true
			glyfBattery(c, gg)
		}
	case "hmtx.Decode":
		a := pick(t, "hmtx")
		hhea, hm := a.tables["hhea"], a.tables["hmtx"]
		if t.Chance(1, 2) {
			hhea = damage(c, hhea, nil)
		} else {
			hm = damage(c, hm, nil)
		}
		input = hm
		c.Logf("%s on %s", dec, a.name)
		var info *hmtx.Info
		var err error
		guarded(c, dec, len(hhea)+len(hm), func() { info, err = hmtx.Decode(hhea, hm) })
		if err == nil && info != nil {
			accepted = true
			c.MustNotPanic("accessors/hmtx.Encode", func() { info.Encode() })
		}
	case "coverage.Read", "coverage.ReadSet", "classdef.Read":
		g := &simgen.LookupGen{T: t, N: t.Range(2, 400)}
		var data []byte
		pos := int64(t.Range(0, 6))
		prefix := t.Bytes(int(pos))
		if dec == "classdef.Read" {
			cd := classdef.Table{}
			for i := t.Range(0, 30); i > 0; i-- {
				cd[glyph.ID(t.Draw(g.N))] = uint16(t.Range(1, 5))
			}
			data = cd.Append(prefix)
		} else {
			cov := coverage.Table{}
			for i, gid := range g.GlyphSet(40) {
				cov[gid] = i
			}
			data = append(prefix, cov.Encode()...)
		}
		input = damage(c, data, nil)
		c.Logf("%s at pos %d of %d bytes", dec, pos, len(input))
		var err error
		guarded(c, dec, len(input), func() {
			p := parser.New(rss(c, input))
			switch dec {
			case "coverage.Read":
				var tab coverage.Table
				tab, err = coverage.Read(p, pos)
				if err == nil {
					accepted = true
					tab.Encode()
					tab.Glyphs()
				}
			case "coverage.ReadSet":
				var set coverage.Set
				set, err = coverage.ReadSet(p, pos)
				if err == nil {
					accepted = true
					set.ToTable().Encode()
				}
			default:
				var tab classdef.Table
				tab, err = classdef.Read(p, pos)
				if err == nil {
					accepted = true
					tab.Append(nil)
				}
			}
		})
	default:
		tag := tagFor[dec]
		a := pick(t, tag)
		if a == nil {
			c.Trivial()
			return
		}
		src := a.tables[tag]
		srcName := a.name
		if dec == "cff.Read" && t.Chance(3, 5) {
			// half of them with subroutines (0-7), half CID-keyed (8-19)
			i := t.Draw(8)
			if t.Chance(1, 2) {
				i = 8 + t.Draw(len(handCFF)-8)
			}
			src, srcName = handCFF[i], fmt.Sprintf("hand-made CFF #%d (0-7 with subroutines, 8-19 CID-keyed, 20-27 extreme operands for roll/index)", i)
			c.Count("handmade_cff_cases", 1)
		}
		if dec == "cmap.Decode" && t.Chance(1, 8) {
			// hand-made character maps: many encoding records that share
			// one subtable (legal) or point at mutually overlapping
			// subtables (to be refused, or at least not multiplied)
			i := t.Draw(len(handCmap))
			src, srcName = handCmap[i].data, handCmap[i].name
			c.Count("handmade_cmap_cases", 1)
		}
		if (dec == "gtab.Read(GSUB)" || dec == "gtab.Read(GPOS)") && t.Chance(1, 6) {
			// as another font tool would write it: extension lookups in a
			// small table, sometimes with a shared offset
			var note string
			src, note = simgen.RewrapGtab(t, src, dec == "gtab.Read(GPOS)", t.Chance(1, 2))
			if note != "" {
				c.Count("tables_rewritten_with_extension_lookups", 1)
				c.Logf("%s", note)
			}
		}
		if dec == "cff.Read" && len(a.cffRegions) > 0 && len(src) > 0 && &src[0] == &a.tables[tag][0] && t.Chance(1, 3) {
			// aim at a small structure located inside the table (FDSelect)
			r := a.cffRegions[t.Draw(len(a.cffRegions))]
			var f simgen.Fault
			input, f = simgen.Corrupt(t, src, r[0], r[1], nil)
			c.Count("fault_"+f.Kind, 1)
			c.Count("faults_aimed_at_FDSelect", 1)
			c.Logf("fault (aimed at FDSelect %v): %v", r, f)
		} else {
			input = damage(c, src, pool[t.Draw(len(pool))].tables[tag])
		}
		c.Logf("%s on table %q of %s (%d bytes)", dec, tag, srcName, len(input))
		if len(input) <= 400 {
			c.Logf("input bytes: %x", input)
		}
		switch dec {
		case "cff.Read":
			var f *cff.Font
			var err error
			guarded(c, dec, len(input), func() { f, err = cff.Read(rss(c, input)) })
			if err == nil && f != nil {
				accepted = true
				c.MustNotPanic("accessors/cff", func() {
					for _, g := range f.Glyphs {
						g.Extent()
					}
					f.Widths()
					f.WidthsPDF()
					f.FontBBoxPDF()
					wk.Budget(2_000_000_000)
					f.Write(io.Discard)
				})
				simhook.Next = ^uint64(0)
			}
		case "cmap.Decode":
			var tab cmap.Table
			var err error
			guarded(c, dec, len(input), func() { tab, err = cmap.Decode(input) })
			if err == nil {
				accepted = true
				cmapBattery(c, tab, len(input))
			}
		case "gtab.Read(GSUB)", "gtab.Read(GPOS)":
			tp := gtab.Type(gtab.TypeGsub)
			if dec == "gtab.Read(GPOS)" {
				tp = gtab.TypeGpos
			}
			var info *gtab.Info
			var err error
			guarded(c, dec, len(input), func() { info, err = gtab.Read(rss(c, input), tp) })
			if err == nil && info != nil {
				accepted = true
				c.MustNotPanic("accessors/gtab.Encode", func() { info.Encode() })
				c.MustNotPanic("accessors/gtab.FindLookups", func() { info.FindLookups(language.English, gtab.GsubDefaultFeatures) })
			}
		case "gdef.Read":
			var tab *gdef.Table
			var err error
			guarded(c, dec, len(input), func() { tab, err = gdef.Read(rss(c, input)) })
			if err == nil && tab != nil {
				accepted = true
				c.MustNotPanic("accessors/gdef.Encode", func() { tab.Encode() })
			}
		case "name.Decode":
			var info *name.Info
			var err error
			guarded(c, dec, len(input), func() { info, err = name.Decode(input) })
			if err == nil && info != nil {
				accepted = true
				c.MustNotPanic("accessors/name", func() {
					info.Windows.Choose(language.AmericanEnglish)
					info.Mac.Choose(language.AmericanEnglish)
					info.Encode(1)
				})
			}
		case "head.Read":
			var info *head.Info
			var err error
			guarded(c, dec, len(input), func() { info, err = head.Read(simio.NewReader(input, c.T)) })
			if err == nil && info != nil {
				accepted = true
				c.MustNotPanic("accessors/head.Encode", func() { info.Encode() })
			}
		case "maxp.Read":
			var info *maxp.Info
			var err error
			guarded(c, dec, len(input), func() { info, err = maxp.Read(simio.NewReader(input, c.T)) })
			if err == nil && info != nil {
				accepted = true
				c.MustNotPanic("accessors/maxp.Encode", func() { info.Encode() })
			}
		case "os2.Read":
			var info *os2.Info
			var err error
			guarded(c, dec, len(input), func() { info, err = os2.Read(simio.NewReader(input, c.T)) })
			if err == nil && info != nil {
				accepted = true
				c.MustNotPanic("accessors/os2.Encode", func() { info.Encode() })
			}
		case "post.Read":
			var info *post.Info
			var err error
			guarded(c, dec, len(input), func() { info, err = post.Read(rss(c, input)) })
			if err == nil && info != nil {
				accepted = true
				c.MustNotPanic("accessors/post.Encode", func() { info.Encode() })
			}
		case "kern.Read":
			var info kern.Info
			var err error
			guarded(c, dec, len(input), func() { info, err = kern.Read(rss(c, input)) })
			if err == nil {
				accepted = true
				c.MustNotPanic("accessors/kern.Encode", func() { info.Encode() })
			}
		}
	}
	if len(input) <= 400 && c.Tracing() {
		c.Logf("input bytes: %x", input)
	}
	res := "rejected"
	if accepted {
		res = "accepted"
	}
	c.Count(res+"_"+dec, 1)
	c.Class(dec + "|" + res)
	c.Sig(simgen.Digest(input))
	c.SigString(dec)
	if c.Sample == nil {
		c.Sample = map[string]any{"decoder": dec, "input_len": len(input), "result": res}
	}
}

func main() {
	wk.Main(&wk.Property{ID: "C02", Run: run, Setup: setup})
}
