// Worker for C01: reproducible bytes and a fixed point through the disk,
// under controlled map iteration order, a jumping simulated clock, call
// history (same value twice, Clone) and stored-data fault survivors.
package main

import (
	"sort"
	"golang.org/x/text/language"
	"bytes"
	"fmt"
	"strings"

	"seehuhn.de/go/sfnt"
	"seehuhn.de/go/sfnt/cff"
	"seehuhn.de/go/sfnt/cmap"
	"seehuhn.de/go/sfnt/glyf"
	"seehuhn.de/go/sfnt/glyph"
	"seehuhn.de/go/sfnt/opentype/coverage"
	"seehuhn.de/go/sfnt/opentype/gdef"
	"seehuhn.de/go/sfnt/opentype/gtab"
	"seehuhn.de/go/sfnt/zzverif/simgen"
	"seehuhn.de/go/sfnt/zzverif/simhook"
	"seehuhn.de/go/sfnt/zzverif/simio"
	"seehuhn.de/go/sfnt/zzverif/tape"
	"seehuhn.de/go/sfnt/zzverif/wk"
)

func setWorld(c *wk.Case, order uint64) {
	simhook.OrderID = order
	// a different instant for every generation; jumps of >= 25 h per read
	simhook.ClockBase = int64(c.T.Range(0, 4_000_000_000))
	simhook.ClockJump = int64(25*3600 + c.T.Draw(400*24*3600))
}

func orderChoice(t *tape.Tape) uint64 {
	switch t.Weighted(3, 3, 6) {
	case 0:
		return 0
	case 1:
		return 1
	}
	return 2 + uint64(t.Draw(1<<30))
}

func write(c *wk.Case, what string, f *sfnt.Font, order uint64) []byte {
	w := simio.NewWriter()
	var err error
	var n int64
	setWorld(c, order)
	reads0 := simhook.ClockReads
	pi := c.Guard(func() { n, err = f.Write(w) })
	c.Count("clock_reads", int(simhook.ClockReads-reads0))
	simhook.OrderID = 0
	if pi != nil {
		c.FailPanic(what, pi)
	}
	if err != nil {
		c.Fail("write-error", what, "%s: Write failed: %v", what, err)
	}
	if n != int64(len(w.Disk)) {
		c.Fail("write-count", what, "%s: returned %d, wrote %d bytes", what, n, len(w.Disk))
	}
	c.Count("writes", 1)
	return w.Disk
}

func read(c *wk.Case, what string, b []byte, order uint64, mustAccept bool) *sfnt.Font {
	var f *sfnt.Font
	var err error
	setWorld(c, order)
	pi := c.Guard(func() { f, err = sfnt.Read(bytes.NewReader(b)) })
	simhook.OrderID = 0
	if pi != nil {
		if mustAccept {
			c.FailPanic(what, pi)
		}
		// panics on arbitrary bytes are C02's business
		c.Count("read_panicked_on_damaged_input_(C02)", 1)
		return nil
	}
	c.Count("reads", 1)
	if err != nil {
		if mustAccept {
			c.Fail("reread-rejected", what, "%s: a file produced by Write from an accepted font is rejected by Read: %v", what, err)
		}
		return nil
	}
	return f
}

func firstDiff(a, b []byte) int {
	for i := 0; i < len(a) && i < len(b); i++ {
		if a[i] != b[i] {
			return i
		}
	}
	if len(a) < len(b) {
		return len(a)
	}
	return len(b)
}

// tableAt names the table containing offset off of file b.
func tableAt(b []byte, off int) string {
	dir, err := simgen.ParseDirectory(b)
	if err != nil {
		return "?"
	}
	if off < 12+16*len(dir.Entries) {
		return "directory"
	}
	for _, e := range dir.Entries {
		if off >= int(e.Offset) && off < int(e.Offset)+int(e.Length) {
			return strings.TrimSpace(e.Tag)
		}
	}
	return "padding"
}

func hasTimestamp(f *sfnt.Font) bool {
	return !f.CreationTime.IsZero() || !f.ModificationTime.IsZero()
}

// reproducible: the same font value written repeatedly gives the same bytes.
func reproducible(c *wk.Case, what string, f *sfnt.Font) []byte {
	t := c.T
	ref := write(c, what, f, 0)
	if !hasTimestamp(f) {
		// outside the domain: the name table embeds today's date
		c.Count("no_timestamp_(clock_domain_excluded)", 1)
		return ref
	}
	// same map order, different simulated instant: any difference is a clock
	// dependence
	if b := write(c, what, f, 0); !bytes.Equal(ref, b) {
		off := firstDiff(ref, b)
		c.Fail("clock-dependence", what+"/"+tableAt(ref, off),
			"%s: the font has a timestamp, yet two writes at different simulated instants differ (first difference at byte %d of %d, table %q)", what, off, len(ref), tableAt(ref, off))
	}
	orders := []uint64{1, orderChoice(t), orderChoice(t)}
	for i, ord := range orders {
		g := f
		if i == 1 {
			g = f.Clone()
		}
		b := write(c, what, g, ord)
		if !bytes.Equal(ref, b) {
			sites := wk.BlameSites(0, ord, func() uint64 {
				w := simio.NewWriter()
				simhook.ClockReads = 0 // hold the clock still while looking for the site
				g.Write(w)
				return simgen.Digest(w.Disk)
			})
			off := firstDiff(ref, b)
			if len(sites) == 0 {
				// not a map site: clock or history
				c.Fail("not-reproducible", what+"/"+tableAt(ref, off),
					"%s: writing the same font twice gave different bytes (first difference at byte %d of %d, table %q); no single map site is responsible: clock or call history", what, off, len(ref), tableAt(ref, off))
			}
			c.Fail("order-dependence", strings.Join(sites, "+"),
				"%s: bytes differ between map order 0 and %d (first difference at byte %d of %d, table %q); responsible map iteration site(s): %v", what, ord, off, len(ref), tableAt(ref, off), sites)
		}
	}
	c.Count("reproducibility_checked", 1)
	return ref
}

// fixedPoint runs generations 1..3 starting from file b0.
func fixedPoint(c *wk.Case, what string, b0 []byte, mustAccept bool) {
	t := c.T
	f1 := read(c, what+"/gen1", b0, orderChoice(t), mustAccept)
	if f1 == nil {
		c.Count("b0_rejected", 1)
		c.Class(what + "|rejected")
		return
	}
	c.Count("b0_accepted", 1)
	c.Class(what + "|accepted|" + kindOf(f1))
	b1 := write(c, what+"/gen1", f1, orderChoice(t))
	f2 := read(c, what+"/gen2", b1, orderChoice(t), true)
	if d := simgen.FontDiff(f1, f2); d != "" {
		if what == "survivor" {
			// Is this the first write normalising an internally inconsistent
			// (damaged) file, after which the font is stable?  That class is
			// reported under its own fingerprint.
			b2 := write(c, what+"/gen2", f2, orderChoice(t))
			f3 := read(c, what+"/gen3", b2, orderChoice(t), true)
			if simgen.FontDiff(f2, f3) == "" {
				c.Fail("normalised-on-first-cycle", what+"/"+pathHead(d), "%s: Read(Write(Read(b))) differs from Read(b): %s (the second cycle is a fixed point: the first write normalised the damaged file)", what, d)
			}
		}
		c.Fail("fixed-point-font", what+"/"+pathHead(d), "%s: Read(Write(Read(b))) differs from Read(b): %s", what, d)
	}
	b2 := write(c, what+"/gen2", f2, orderChoice(t))
	if !hasTimestamp(f1) {
		// outside the domain of the byte clauses: without a timestamp the
		// name table embeds the (simulated, jumping) current date
		c.Count("fixed_point_fonts_only_(no_timestamp)", 1)
		return
	}
	if !bytes.Equal(b1, b2) {
		off := firstDiff(b1, b2)
		c.Fail("fixed-point-bytes", what+"/"+tableAt(b1, off), "%s: Write(Read(Write(Read(b)))) differs from Write(Read(b)) at byte %d of %d (table %q)", what, off, len(b1), tableAt(b1, off))
	}
	f3 := read(c, what+"/gen3", b2, orderChoice(t), true)
	b3 := write(c, what+"/gen3", f3, orderChoice(t))
	if !bytes.Equal(b2, b3) {
		off := firstDiff(b2, b3)
		c.Fail("fixed-point-bytes", what+"/gen3/"+tableAt(b2, off), "%s: third generation differs at byte %d (table %q)", what, off, tableAt(b2, off))
	}
	c.Count("fixed_point_checked", 1)
}

func pathHead(d string) string {
	// "Font.Outlines.Glyphs[12].Cmds[3]...: a vs b" -> "Font.Outlines.Glyphs[*].Cmds[*]"
	if i := strings.Index(d, ":"); i >= 0 {
		d = d[:i]
	}
	var sb strings.Builder
	depth := 0
	for _, r := range d {
		switch {
		case r == '[':
			depth++
			sb.WriteString("[*")
		case r == ']':
			depth--
			sb.WriteRune(r)
		case depth == 0:
			sb.WriteRune(r)
		}
	}
	s := sb.String()
	if len(s) > 70 {
		s = s[:70]
	}
	return s
}

func kindOf(f *sfnt.Font) string {
	if o, ok := f.Outlines.(*cff.Outlines); ok {
		if o.IsCIDKeyed() {
			return "cff-cid"
		}
		return "cff"
	}
	return "truetype"
}

// lossless: incidental oracle for constructed fonts (fields whose normal
// form is the identity).
// actsAlike applies every lookup of the written and of the re-read table to
// the same glyph sequences.
func actsAlike(c *wk.Case, what string, a, b *gtab.Info, gd *gdef.Table, n int) {
	if a == nil || len(a.LookupList) == 0 {
		return
	}
	if b == nil {
		c.Fail("lossless", what, "constructed font: the %s table (%d lookups) is gone after Write/Read", what, len(a.LookupList))
	}
	if len(a.LookupList) != len(b.LookupList) {
		c.Fail("lossless", what+"/lookup-count", "constructed font: %d %s lookups were written, %d came back", len(a.LookupList), what, len(b.LookupList))
	}
	// feature selection: for every language system of the written table,
	// the same lookups must be selected in the re-read table (script and
	// feature lists are compared by what they select, because language tags
	// are normalised by the encoder)
	if b != nil {
		var tags []language.Tag
		for tag := range a.ScriptList {
			tags = append(tags, tag)
		}
		sort.Slice(tags, func(i, j int) bool { return tags[i].String() < tags[j].String() })
		allOn := map[string]bool{}
		for _, f := range a.FeatureList {
			allOn[f.Tag] = true
		}
		for _, tag := range tags {
			for _, sw := range []map[string]bool{allOn, {}} {
				var want, got []gtab.LookupIndex
				p1 := c.Guard(func() { want = a.FindLookups(tag, sw) })
				p2 := c.Guard(func() { got = b.FindLookups(tag, sw) })
				if p1 != nil || p2 != nil {
					continue
				}
				c.Count("feature_selection_comparisons", 1)
				if d := simgen.DeepDiff(want, got, 0, false); d != "" {
					c.Fail("lossless", what+"/feature-selection", "constructed font: for language %v (all features %v) the %s table selects lookups %v, after Write/Read %v", tag, len(sw) > 0, what, want, got)
				}
			}
		}
	}
	hot := simgen.CoveredGlyphs(a)
	t := c.T
	// compare with the normal form of what was written (one ValueFormat2 per
	// pair adjustment subtable: see simgen.NormalPairs)
	aList := simgen.NormalPairs(a.LookupList)
	for k := 0; k < 8; k++ {
		// one lookup at a time or all of them, in list order
		var lookups []gtab.LookupIndex
		if t.Chance(1, 2) {
			lookups = []gtab.LookupIndex{gtab.LookupIndex(t.Draw(len(a.LookupList)))}
		} else {
			for i := range a.LookupList {
				lookups = append(lookups, gtab.LookupIndex(i))
			}
		}
		seq := make([]glyph.Info, t.Range(1, 10))
		for i := range seq {
			gid := glyph.ID(t.Draw(n))
			if len(hot) > 0 && !t.Chance(1, 5) {
				gid = hot[t.Draw(len(hot))]
			}
			seq[i] = glyph.Info{GID: gid, Text: []rune{rune('a' + i)}}
		}
		var want, got []glyph.Info
		p1 := c.Guard(func() { want = gtab.NewContext(aList, gd, lookups).Apply(append([]glyph.Info(nil), seq...)) })
		p2 := c.Guard(func() { got = gtab.NewContext(b.LookupList, gd, lookups).Apply(append([]glyph.Info(nil), seq...)) })
		if p1 != nil || p2 != nil {
			c.Count("lookup_application_panicked_(C07,_not_judged_here)", 1)
			continue
		}
		c.Count("lookup_behaviour_comparisons", 1)
		if d := simgen.DeepDiff(want, got, 0, false); d != "" {
			var in []glyph.ID
			for _, x := range seq {
				in = append(in, x.GID)
			}
			tp := a.LookupList[lookups[0]].Meta.LookupType
			hint := ""
			for _, l := range lookups {
				if sd := simgen.DeepDiff(aList[l], b.LookupList[l], 0, false); sd != "" {
					hint += fmt.Sprintf("\n  lookup %d, written vs re-read: %s", l, sd)
				}
			}
			c.Fail("lossless", fmt.Sprintf("%s/behaviour/type%d", what, tp), "constructed font: the %s lookups %v act differently after Write/Read on the glyph sequence %v: %s%s", what, lookups, in, d, hint)
		}
	}
}

func lossless(c *wk.Case, f *sfnt.Font, b []byte) {
	g := read(c, "constructed", b, 0, true)
	fail := func(field string, format string, args ...any) {
		c.Fail("lossless", field, "constructed font: "+field+" changed by Write/Read: "+format, args...)
	}
	if g.NumGlyphs() != f.NumGlyphs() {
		fail("NumGlyphs", "%d -> %d", f.NumGlyphs(), g.NumGlyphs())
	}
	if g.UnitsPerEm != f.UnitsPerEm {
		fail("UnitsPerEm", "%d -> %d", f.UnitsPerEm, g.UnitsPerEm)
	}
	if g.Ascent != f.Ascent || g.Descent != f.Descent || g.LineGap != f.LineGap {
		fail("VerticalMetrics", "(%d,%d,%d) -> (%d,%d,%d)", f.Ascent, f.Descent, f.LineGap, g.Ascent, g.Descent, g.LineGap)
	}
	if g.Version != f.Version {
		fail("Version", "%v -> %v", f.Version, g.Version)
	}
	if !g.CreationTime.Equal(f.CreationTime) && !f.CreationTime.IsZero() {
		fail("CreationTime", "%v -> %v", f.CreationTime, g.CreationTime)
	}
	if !g.ModificationTime.Equal(f.ModificationTime) && !f.ModificationTime.IsZero() {
		fail("ModificationTime", "%v -> %v", f.ModificationTime, g.ModificationTime)
	}
	if g.FamilyName != f.FamilyName {
		fail("FamilyName", "%q -> %q", f.FamilyName, g.FamilyName)
	}
	if g.Copyright != f.Copyright || g.Trademark != f.Trademark || g.License != f.License || g.LicenseURL != f.LicenseURL {
		fail("LegalStrings", "(%q,%q,%q,%q) -> (%q,%q,%q,%q)", f.Copyright, f.Trademark, f.License, f.LicenseURL, g.Copyright, g.Trademark, g.License, g.LicenseURL)
	}
	if g.PermUse != f.PermUse {
		fail("PermUse", "%v -> %v", f.PermUse, g.PermUse)
	}
	if g.CodePageRange != f.CodePageRange {
		fail("CodePageRange", "%#x -> %#x", f.CodePageRange, g.CodePageRange)
	}
	if g.Weight != f.Weight || g.Width != f.Width {
		fail("WeightWidth", "(%v,%v) -> (%v,%v)", f.Weight, f.Width, g.Weight, g.Width)
	}
	if g.IsOblique != f.IsOblique || g.IsSerif != f.IsSerif || g.IsScript != f.IsScript {
		fail("StyleFlags", "oblique/serif/script (%v,%v,%v) -> (%v,%v,%v)", f.IsOblique, f.IsSerif, f.IsScript, g.IsOblique, g.IsSerif, g.IsScript)
	}
	if f.IsItalic == (f.ItalicAngle != 0) && g.IsItalic != f.IsItalic {
		fail("IsItalic", "%v -> %v", f.IsItalic, g.IsItalic)
	}
	if g.ItalicAngle != f.ItalicAngle {
		fail("ItalicAngle", "%v -> %v", f.ItalicAngle, g.ItalicAngle)
	}
	if g.UnderlinePosition != f.UnderlinePosition || g.UnderlineThickness != f.UnderlineThickness {
		fail("Underline", "(%v,%v) -> (%v,%v)", f.UnderlinePosition, f.UnderlineThickness, g.UnderlinePosition, g.UnderlineThickness)
	}
	if f.CapHeight != 0 && g.CapHeight != f.CapHeight || f.XHeight != 0 && g.XHeight != f.XHeight {
		fail("CapXHeight", "(%v,%v) -> (%v,%v)", f.CapHeight, f.XHeight, g.CapHeight, g.XHeight)
	}
	if g.Description != f.Description || g.SampleText != f.SampleText {
		fail("DescriptionSampleText", "(%q,%q) -> (%q,%q)", f.Description, f.SampleText, g.Description, g.SampleText)
	}
	for gid := 0; gid < f.NumGlyphs(); gid++ {
		w := f.GlyphWidth(glyph.ID(gid))
		if w == float64(int(w)) && g.GlyphWidth(glyph.ID(gid)) != w {
			fail("GlyphWidth", "glyph %d: %v -> %v", gid, w, g.GlyphWidth(glyph.ID(gid)))
		}
	}
	fb, _ := f.CMapTable.GetBest()
	gb, _ := g.CMapTable.GetBest()
	if (fb == nil) != (gb == nil) {
		fail("CMap", "best subtable present %v -> %v", fb != nil, gb != nil)
	}
	if fb != nil {
		lo, hi := fb.CodeRange()
		for i := 0; i < 200; i++ {
			r := lo + rune(i)
			if i >= 100 {
				r = hi - rune(i-100)
			}
			if r < 0 {
				continue
			}
			if fb.Lookup(r) != gb.Lookup(r) {
				fail("CMap", "rune %U: glyph %d -> %d", r, fb.Lookup(r), gb.Lookup(r))
			}
		}
	}
	if fo, ok := f.Outlines.(*glyf.Outlines); ok {
		goo := g.Outlines.(*glyf.Outlines)
		if d := simgen.DeepDiff(fo.Glyphs, goo.Glyphs, 0, false); d != "" {
			fail("TrueTypeGlyphs", "%s", d)
		}
		if d := simgen.DeepDiff(fo.Tables, goo.Tables, 0, false); d != "" {
			fail("TrueTypeTables", "%s", d)
		}
		if len(fo.Names) == len(fo.Glyphs) && len(fo.Names) > 0 {
			// a complete list of glyph names comes back as it was
			if d := simgen.DeepDiff(fo.Names, goo.Names, 0, false); d != "" {
				fail("TrueTypeGlyphNames", "%s (%d names written, %d read)", d, len(fo.Names), len(goo.Names))
			}
		}
	}
	if fo, ok := f.Outlines.(*cff.Outlines); ok {
		goo, ok2 := g.Outlines.(*cff.Outlines)
		if !ok2 || len(goo.Glyphs) != len(fo.Glyphs) {
			fail("CFFGlyphs", "outline kind or glyph count changed")
		}
		for i, gl := range fo.Glyphs {
			if !fo.IsCIDKeyed() && gl.Name != goo.Glyphs[i].Name {
				fail("CFFGlyphNames", "glyph %d: %q -> %q", i, gl.Name, goo.Glyphs[i].Name)
			}
			if d := simgen.DeepDiff(gl.Cmds, goo.Glyphs[i].Cmds, 1e-4, false); d != "" {
				fail("CFFOutlines", "glyph %d: %s", i, d)
			}
			if d := simgen.DeepDiff([2]any{gl.HStem, gl.VStem}, [2]any{goo.Glyphs[i].HStem, goo.Glyphs[i].VStem}, 1e-4, false); d != "" {
				fail("CFFHints", "glyph %d: %s", i, d)
			}
		}
		if fo.Encoding != nil && !fo.IsCIDKeyed() {
			if len(goo.Encoding) != len(fo.Encoding) {
				fail("CFFEncoding", "%d codes -> %d codes", len(fo.Encoding), len(goo.Encoding))
			}
			for code := range fo.Encoding {
				if fo.Encoding[code] != goo.Encoding[code] {
					fail("CFFEncoding", "code %d: glyph %d -> %d", code, fo.Encoding[code], goo.Encoding[code])
				}
			}
		}
		if fo.IsCIDKeyed() {
			if d := simgen.DeepDiff(fo.ROS, goo.ROS, 0, false); d != "" {
				fail("CFFROS", "%s", d)
			}
			if fo.GIDToCID != nil {
				if d := simgen.DeepDiff(fo.GIDToCID, goo.GIDToCID, 0, false); d != "" {
					fail("CFFGIDToCID", "%s", d)
				}
			}
			for i := range fo.Glyphs {
				if x, y := fo.FDSelect(glyph.ID(i)), goo.FDSelect(glyph.ID(i)); x != y {
					fail("CFFFDSelect", "glyph %d: %d -> %d", i, x, y)
				}
			}
		}
		if d := simgen.DeepDiff(fo.Private, goo.Private, 1e-4, false); d != "" {
			fail("CFFPrivate", "%s", d)
		}
	}
	if f.Gdef != nil {
		if d := simgen.DeepDiff(f.Gdef, g.Gdef, 0, false); d != "" {
			fail("GDEF", "%s", d)
		}
	}
	// (lookup lists are not compared here: the encoders normalise the shape
	// of rule arrays; GSUB/GPOS are covered by the fixed-point clause)
	if f.Gsub != nil && g.Gsub != nil {
		if d := simgen.DeepDiff(f.Gsub.FeatureList, g.Gsub.FeatureList, 0, false); d != "" {
			fail("GSUB.FeatureList", "%s", d)
		}
	}
	if f.Gpos != nil && g.Gpos != nil {
		if d := simgen.DeepDiff(f.Gpos.FeatureList, g.Gpos.FeatureList, 0, false); d != "" {
			fail("GPOS.FeatureList", "%s", d)
		}
	}
	// the lookups that come back must act like the ones that were written
	// (behaviour, because the encoders may choose other subtable shapes)
	actsAlike(c, "GSUB", f.Gsub, g.Gsub, f.Gdef, f.NumGlyphs())
	actsAlike(c, "GPOS", f.Gpos, g.Gpos, f.Gdef, f.NumGlyphs())
	c.Count("lossless_checked_(incidental)", 1)
}

var goFiles [][]byte

func run(c *wk.Case) {
	t := c.T
	mode := t.Weighted(5, 2, 4)
	switch mode {
	case 0, 1:
		// constructed font: R, then FP from its file, then L
		kind := simgen.Kind(t.Draw(3))
		size := t.Weighted(8, 2, 0)
		if mode == 1 {
			size = 1
		}
		f := simgen.GenFont(t, kind, size)
		if o, ok := f.Outlines.(*glyf.Outlines); ok && t.Chance(1, 20) {
			// a "glyf" table whose size is at the limit of the short "loca" format
			if simgen.PadGlyfTo(t, o, simgen.LocaEdges[t.Draw(len(simgen.LocaEdges))]) {
				c.Count("fonts_with_glyf_size_at_the_short_loca_limit", 1)
			}
		}
		big := false
		if mode == 0 && t.Chance(1, 25) {
			// the top of the glyph-id range (TrueType, mostly blank glyphs),
			// with lookups that prefer glyph ids around 0xD800 and 0xFFFE
			f = simgen.GenHugeFont(t)
			kind = simgen.KindTrueType
			hot := simgen.HighGlyphs(t, f.NumGlyphs())
			simgen.AddLayoutTablesHot(t, f, hot)
			if f.Gsub != nil && len(hot) > 0 && t.Chance(1, 2) {
				// a decomposition lookup over those glyphs (short
				// replacement sequences, many of them alike)
				s := &gtab.Gsub2_1{Cov: coverage.Table{}}
				for i, k := 0, t.Range(3, 8); i < k; i++ {
					s.Cov[glyph.ID(20+3*i)] = i
					var repl []glyph.ID
					for j := t.Range(1, 2); j > 0; j-- {
						repl = append(repl, hot[t.Draw(len(hot))])
					}
					s.Repl = append(s.Repl, repl)
				}
				f.Gsub.LookupList = append(f.Gsub.LookupList, &gtab.LookupTable{Meta: &gtab.LookupMetaInfo{LookupType: 2}, Subtables: []gtab.Subtable{s}})
			}
			c.Count("fonts_with_more_than_55_300_glyphs", 1)
		} else if t.Chance(2, 3) {
			simgen.AddLayoutTables(t, f)
		}
		if t.Chance(1, 60) {
			// lookup data beyond 64 KiB: lookup reordering and extension subtables
			if g := simgen.BigGpos(t, f.NumGlyphs()); g != nil {
				f.Gpos = g
				big = true
				c.Count("fonts_with_more_than_64KiB_of_lookup_data", 1)
			}
		}
		_ = big
		if t.Chance(1, 8) {
			twinCMap(c, f)
		}
		c.Sample = map[string]any{"source": "constructed font", "outlines": kind.String(), "glyphs": f.NumGlyphs(),
			"gsub": f.Gsub != nil, "gpos": f.Gpos != nil, "gdef": f.Gdef != nil, "timestamps": hasTimestamp(f)}
		c.Logf("constructed %s font, %d glyphs, gsub=%v gpos=%v gdef=%v timestamps=%v", kind, f.NumGlyphs(), f.Gsub != nil, f.Gpos != nil, f.Gdef != nil, hasTimestamp(f))
		c.Sig(simgen.FontDigest(f))
		c.Class("constructed|" + kind.String() + fmt.Sprintf("|layout=%v|ts=%v", f.Gsub != nil || f.Gpos != nil, hasTimestamp(f)))
		d0 := simgen.FontDigest(f)
		b := reproducible(c, "constructed", f)
		if simgen.FontDigest(f) != d0 {
			c.Fail("write-modifies-font", "constructed", "Write modified the font value it was given")
		}
		if hasTimestamp(f) {
			fixedPoint(c, "constructed", b, true)
			lossless(c, f, b)
		}
	default:
		// a file from the corpus or a fault survivor
		var b0 []byte
		src := ""
		switch t.Weighted(2, 3) {
		case 0:
			i := t.Draw(12)
			b0 = goFiles[i]
			src = simgen.GoFontNames[i]
		default:
			kind := simgen.Kind(t.Draw(3))
			f := simgen.GenFont(t, kind, t.Weighted(8, 2))
			if t.Chance(2, 3) {
				simgen.AddLayoutTables(t, f)
			}
			if !hasTimestamp(f) {
				f.ModificationTime = f.ModificationTime.AddDate(2000, 0, 0)
			}
			b0 = write(c, "corpus", f, 0)
			src = "generated-" + kind.String()
		}
		damaged := t.Chance(3, 4)
		var faults []simgen.Fault
		if damaged {
			b0, faults = simgen.CorruptFile(t, b0, goFiles[t.Draw(12)])
			for _, f := range faults {
				c.Count("fault_"+f.Kind, 1)
			}
		}
		c.Sample = map[string]any{"source": src, "damaged": damaged, "faults": fmt.Sprint(faults), "file_len": len(b0)}
		c.Logf("file from %s (%d bytes), faults: %v", src, len(b0), faults)
		c.Sig(simgen.Digest(b0))
		what := "file"
		if damaged {
			what = "survivor"
		}
		fixedPoint(c, what, b0, !damaged)
	}
}

func setup(string, uint64) {
	for i := 0; i < 12; i++ {
		goFiles = append(goFiles, simgen.GoFontData(i))
	}
}

func main() {
	wk.Main(&wk.Property{ID: "C01", Run: run, Setup: setup})
}

// twinCMap gives the font two character maps that differ: the Windows subtable
// is the Unicode one with the glyphs of two characters exchanged (as fonts with
// a symbol or legacy encoding besides the Unicode one have it).  The two
// encodings have the same length and mostly the same words in another order.
func twinCMap(c *wk.Case, f *sfnt.Font) {
	t := c.T
	best, _ := f.CMapTable.GetBest()
	if best == nil {
		return
	}
	lo, hi := best.CodeRange()
	if hi > 0xFFFF {
		return
	}
	m1, m2 := cmap.Format4{}, cmap.Format4{}
	var codes []uint16
	for r := lo; r <= hi; r++ {
		if g := best.Lookup(r); g != 0 {
			m1[uint16(r)], m2[uint16(r)] = g, g
			codes = append(codes, uint16(r))
		}
	}
	if len(codes) < 2 {
		return
	}
	// prefer characters that form segments of their own
	alone := func(i int) bool {
		return (i == 0 || codes[i-1]+1 < codes[i]) && (i+1 == len(codes) || codes[i]+1 < codes[i+1])
	}
	pickCode := func() int {
		i := t.Draw(len(codes))
		for k := 0; k < len(codes); k++ {
			if j := (i + k) % len(codes); alone(j) {
				return j
			}
		}
		return i
	}
	i, j := pickCode(), pickCode()
	if i == j || m1[codes[i]] == m1[codes[j]] {
		return
	}
	m2[codes[i]], m2[codes[j]] = m1[codes[j]], m1[codes[i]]
	f.CMapTable = cmap.Table{
		{PlatformID: 0, EncodingID: 3}: m1.Encode(0),
		{PlatformID: 3, EncodingID: 1}: m2.Encode(0),
	}
	c.Count("fonts_with_two_different_cmap_subtables", 1)
}
