//go:build !race

package simhook

import "unsafe"

func raceAcquire(unsafe.Pointer) {}
func raceRelease(unsafe.Pointer) {}
