// Package simhook is the set of seams the scratch-copy instrumentation
// (cmd/rewrite) redirects repository code to.  It exists only in the scratch
// copy of the repository that a check builds; /repo itself never imports it.
//
// Seams:
//   - map iteration order:  Range, Permute (for x/exp/maps.Keys/Values),
//     PermuteSeq/PermuteSeq2 (for std maps.Keys/Values/All)
//   - clock:                Now
//   - step counter / function-entry yield:  Tick
//   - channel-operation yield:              ChanYield, ChanRange
//
// Everything is a pure function of the configuration variables below, which the
// worker sets from the choice tape before an operation starts.  No function in
// this package draws randomness of its own or reads a real clock.
package simhook

import (
	"fmt"
	"iter"
	"reflect"
	"runtime"
	"sort"
	"sync"
	"time"
	"unsafe"
)

// ---- map order --------------------------------------------------------

// Order modes.
const (
	OrderNative = iota // leave Go's own (random) order alone: fallback mode
	OrderControlled
)

var (
	// Mode selects native or controlled map order.
	Mode = OrderControlled
	// OrderID selects the order assignment.  0 = every site ascending,
	// 1 = every site descending, otherwise the permutation of a site is a
	// pure function of (OrderID, site).
	OrderID uint64
	// SiteOverride forces the order id used at single sites (used to find
	// the site responsible for an order dependence).
	SiteOverride map[string]uint64
	// Record enables counting of the sites that were reached.
	Record bool
	// Touched counts, per site, how many iterations were started.
	Touched = map[string]int{}
)

func mix(x uint64) uint64 {
	x += 0x9e3779b97f4a7c15
	x = (x ^ (x >> 30)) * 0xbf58476d1ce4e5b9
	x = (x ^ (x >> 27)) * 0x94d049bb133111eb
	return x ^ (x >> 31)
}

func hashString(h uint64, s string) uint64 {
	for i := 0; i < len(s); i++ {
		h = (h ^ uint64(s[i])) * 0x100000001b3
	}
	return mix(h)
}

//go:norace
func orderFor(site string) uint64 {
	if Record {
		Touched[site]++
	}
	if SiteOverride != nil {
		if id, ok := SiteOverride[site]; ok {
			return id
		}
	}
	return OrderID
}

type sortKey struct {
	u   uint64
	s   string
	idx int
}

// canonical returns the indices of keys in a canonical (type-dependent but
// run-independent) ascending order.
func canonical[K any](keys []K) []int {
	n := len(keys)
	sk := make([]sortKey, n)
	if n == 0 {
		return nil
	}
	kind := reflect.TypeOf(&keys[0]).Elem().Kind()
	switch kind {
	case reflect.Int, reflect.Int8, reflect.Int16, reflect.Int32, reflect.Int64:
		for i := range keys {
			sk[i] = sortKey{u: uint64(reflect.ValueOf(keys[i]).Int()) ^ (1 << 63), idx: i}
		}
	case reflect.Uint, reflect.Uint8, reflect.Uint16, reflect.Uint32, reflect.Uint64, reflect.Uintptr:
		for i := range keys {
			sk[i] = sortKey{u: reflect.ValueOf(keys[i]).Uint(), idx: i}
		}
	case reflect.String:
		for i := range keys {
			sk[i] = sortKey{s: reflect.ValueOf(keys[i]).String(), idx: i}
		}
	default:
		for i := range keys {
			sk[i] = sortKey{s: fmt.Sprintf("%#v", keys[i]), idx: i}
		}
	}
	sort.Slice(sk, func(i, j int) bool {
		if sk[i].u != sk[j].u {
			return sk[i].u < sk[j].u
		}
		if sk[i].s != sk[j].s {
			return sk[i].s < sk[j].s
		}
		return sk[i].idx < sk[j].idx
	})
	res := make([]int, n)
	for i := range sk {
		res[i] = sk[i].idx
	}
	return res
}

// PermKind names the permutation applied for (id, site): used in traces.
func PermKind(id uint64, site string) string {
	switch id {
	case 0:
		return "asc"
	case 1:
		return "desc"
	}
	h := hashString(mix(id), site)
	switch h % 4 {
	case 0:
		return "asc"
	case 1:
		return "desc"
	case 2:
		return "rot"
	}
	return "shuffle"
}

// permute reorders idx (canonical ascending) according to (id, site).
func permute(idx []int, id uint64, site string) {
	n := len(idx)
	if n < 2 {
		return
	}
	rev := func() {
		for i, j := 0, n-1; i < j; i, j = i+1, j-1 {
			idx[i], idx[j] = idx[j], idx[i]
		}
	}
	switch id {
	case 0:
		return
	case 1:
		rev()
		return
	}
	h := hashString(mix(id), site)
	switch h % 4 {
	case 0:
	case 1:
		rev()
	case 2:
		r := int((h >> 8) % uint64(n))
		tmp := append(append([]int{}, idx[r:]...), idx[:r]...)
		copy(idx, tmp)
	default:
		s := h
		for i := n - 1; i > 0; i-- {
			s = mix(s)
			j := int(s % uint64(i+1))
			idx[i], idx[j] = idx[j], idx[i]
		}
	}
}

func ordered[K any](keys []K, site string) []K {
	id := orderFor(site)
	idx := canonical(keys)
	permute(idx, id, site)
	res := make([]K, len(keys))
	for i, j := range idx {
		res[i] = keys[j]
	}
	return res
}

// Range replaces the operand of `for k, v := range m`.  The keys present when
// the loop starts are visited in the simulator's order; a key deleted before
// it is reached is skipped and values are looked up when the key is reached,
// both as the Go specification requires; keys inserted during the iteration
// are not visited, which the specification permits.
func Range[M ~map[K]V, K comparable, V any](m M, site string) iter.Seq2[K, V] {
	if Mode == OrderNative {
		return func(yield func(K, V) bool) {
			for k, v := range m {
				if !yield(k, v) {
					return
				}
			}
		}
	}
	return func(yield func(K, V) bool) {
		keys := make([]K, 0, len(m))
		for k := range m {
			keys = append(keys, k)
		}
		for _, k := range ordered(keys, site) {
			v, ok := m[k]
			if !ok {
				if k == k { // not NaN: really deleted
					continue
				}
			}
			if !yield(k, v) {
				return
			}
		}
	}
}

// Permute replaces the result of x/exp/maps.Keys and maps.Values (a slice in
// unspecified order).
func Permute[S ~[]E, E any](s S, site string) S {
	if Mode == OrderNative {
		return s
	}
	return S(ordered([]E(s), site))
}

// PermuteSeq replaces the result of std maps.Keys / maps.Values.
func PermuteSeq[E any](seq iter.Seq[E], site string) iter.Seq[E] {
	if Mode == OrderNative {
		return seq
	}
	return func(yield func(E) bool) {
		var all []E
		for e := range seq {
			all = append(all, e)
		}
		for _, e := range ordered(all, site) {
			if !yield(e) {
				return
			}
		}
	}
}

type pair[K, V any] struct {
	K K
	V V
}

// PermuteSeq2 replaces the result of std maps.All.
func PermuteSeq2[K, V any](seq iter.Seq2[K, V], site string) iter.Seq2[K, V] {
	if Mode == OrderNative {
		return seq
	}
	return func(yield func(K, V) bool) {
		var keys []K
		var vals []V
		for k, v := range seq {
			keys = append(keys, k)
			vals = append(vals, v)
		}
		id := orderFor(site)
		idx := canonical(keys)
		permute(idx, id, site)
		for _, j := range idx {
			if !yield(keys[j], vals[j]) {
				return
			}
		}
	}
}

// ---- clock ------------------------------------------------------------

var (
	// ClockBase is the simulated instant (Unix seconds) of the first read.
	ClockBase int64 = 1_000_000_000
	// ClockJump is added after every read (seconds); the workers keep it
	// at 25 h or more so that two reads never fall on the same day.
	ClockJump int64 = 25 * 3600
	// ClockReads counts calls of Now.
	ClockReads int64
)

// Now replaces time.Now in repository code.
//
//go:norace
func Now() time.Time {
	t := time.Unix(ClockBase+ClockReads*ClockJump, 0).UTC()
	ClockReads++
	return t
}

// ---- step counter and yields -----------------------------------------

var (
	// Steps counts Tick calls (function entries and loop iterations).
	Steps uint64
	// Next is the step at which OnStep is called next.
	Next = ^uint64(0)
	// OnStep is called from Tick when Steps reaches Next.  It must set Next.
	OnStep func()
	// ChanHook, if set, is called before every channel operation of the
	// packages instrumented for channel yields.
	ChanHook func(site string)
)

// StepBudgetExceeded is the panic value used by workers' OnStep handlers
// when an operation runs out of its step budget.
type StepBudgetExceeded struct{ Steps uint64 }

func (e StepBudgetExceeded) Error() string {
	return fmt.Sprintf("step budget exceeded after %d steps", e.Steps)
}

// Tick is inserted at the head of every function and loop body.
//
//go:norace
func Tick() {
	Steps++
	if Steps >= Next {
		OnStep()
	}
}

// ChanYield is inserted before channel sends, receives and closes.
func ChanYield(site string) {
	if h := ChanHook; h != nil {
		h(site)
	}
}

// ChanRange replaces the operand of `for v := range ch`.
func ChanRange[T any](c <-chan T, site string) iter.Seq[T] {
	return func(yield func(T) bool) {
		for {
			ChanYield(site)
			v, ok := <-c
			if !ok {
				return
			}
			if !yield(v) {
				return
			}
		}
	}
}

// ---- locks (C16) ---------------------------------------------------------

// BlockedHook, if set, is called when the running task cannot take a lock:
// the scheduler hands the baton to another task (the holder is parked
// somewhere and has to run before the lock is released).
var BlockedHook func()

// SpinLock replaces mu.Lock() / mu.RLock() in C16 builds: try is the bound
// TryLock / TryRLock method.  A real Lock would block the only running task
// for ever if the holder is parked.
func SpinLock(try func() bool) {
	if h := SyncHook; h != nil {
		h() // a preferred yield point: lock-order and check-then-lock windows
	}
	for !try() {
		if h := BlockedHook; h != nil {
			h()
		} else {
			runtimeGosched()
		}
	}
}

const maxOnce = 256

var (
	onceKeys    [maxOnce]unsafe.Pointer
	onceRunning [maxOnce]bool
	onceUsed    int
)

//go:norace
func onceSlot(o *sync.Once) int {
	p := unsafe.Pointer(o)
	for i := 0; i < onceUsed; i++ {
		if onceKeys[i] == p {
			return i
		}
	}
	if onceUsed == maxOnce {
		return -1
	}
	onceKeys[onceUsed] = p
	onceUsed++
	return onceUsed - 1
}

//go:norace
func onceIsRunning(i int) bool { return i >= 0 && onceRunning[i] }

//go:norace
func onceSetRunning(i int, v bool) {
	if i >= 0 {
		onceRunning[i] = v
	}
}

// OnceDo replaces o.Do(f) in C16 builds: while another (parked) task is
// inside f the caller yields instead of blocking inside the real Once.
func OnceDo(o *sync.Once, f func()) {
	if h := SyncHook; h != nil {
		h()
	}
	i := onceSlot(o)
	for onceIsRunning(i) {
		if h := BlockedHook; h != nil {
			h()
		} else {
			runtimeGosched()
		}
	}
	o.Do(func() {
		onceSetRunning(i, true)
		defer onceSetRunning(i, false)
		f()
	})
}

func runtimeGosched() { runtime.Gosched() }

// SyncHook, if set, is called before every atomic operation of repository
// code (C16 builds): code that is free of data races can still interfere
// through atomics, but only if a task switch falls between two of them.
var SyncHook func()

// Pre is wrapped around the callee of sync/atomic calls: simhook.Pre(x.Load)().
func Pre[F any](f F) F {
	if h := SyncHook; h != nil {
		h()
	}
	return f
}
