package simhook

import (
	"iter"
	"reflect"
	"sync"
	"unsafe"
)

// ---- goroutines, channels and wait groups under the C16 scheduler ---------------------
//
// In C16 builds the rewriter turns `go f()`, channel operations and
// sync.WaitGroup calls of repository code into the calls below.  When a
// scheduler is installed (Sched != nil) goroutines started by the library
// become tasks of the scheduler, and channels / wait groups are *virtual*:
// their state lives here, keyed by the identity of the real object, no
// goroutine ever blocks in the Go runtime, and "everybody is blocked" is a
// deadlock the scheduler can see and report.  Happens-before edges that real
// channels and wait groups would give the race detector are reproduced with
// runtime.RaceRelease / RaceAcquire (raceSync, see race_on.go).
//
// Without a scheduler the functions fall through to the real operations.

// Scheduler is what package sched provides.
type Scheduler interface {
	// PreGo reserves a task slot for a goroutine about to be started.
	PreGo() int
	// Enter parks the calling (new) goroutine until it is scheduled.
	Enter(k int)
	// Exit marks task k as finished and hands the baton on.
	Exit(k int)
	// Block parks the calling task until Wake is called for it; what
	// describes the operation for deadlock reports.
	Block(what string)
	// Current returns the id of the running task.
	Current() int
	// Wake makes task k runnable again.
	Wake(k int)
}

// Sched is the installed scheduler (nil: real operations).
var Sched Scheduler

// PreGo is inserted before a go statement.
//
//go:norace
func PreGo() int {
	if s := Sched; s != nil {
		return s.PreGo()
	}
	return -1
}

// TaskEnter / TaskExit bracket the body of a goroutine started by repository code.
//
//go:norace
func TaskEnter(k int) {
	if s := Sched; s != nil && k >= 0 {
		s.Enter(k)
	}
}

//go:norace
func TaskExit(k int) {
	if s := Sched; s != nil && k >= 0 {
		s.Exit(k)
	}
}

type pendingSend struct {
	task int
	val  any
	done bool
}

// Fixed-size queues only: growing a slice from //go:norace code is still
// seen by the race detector (the runtime's growslice carries its own hooks).
const vq = 64

type vchan struct {
	cap     int
	buf     [vq]any
	bufN    int
	closed  bool
	sendq   [vq]*pendingSend
	sendN   int
	recvq   [vq]int // tasks blocked in receive
	recvN   int
	syncVar byte // address used for race annotations
}

//go:norace
func (vc *vchan) pushBuf(v any) {
	if vc.bufN == vq {
		panic("simhook: channel buffer larger than the model supports")
	}
	vc.buf[vc.bufN] = v
	vc.bufN++
}

//go:norace
func (vc *vchan) popBuf() any {
	v := vc.buf[0]
	for i := 1; i < vc.bufN; i++ { // no copy(): runtime.slicecopy is seen by the race detector
		vc.buf[i-1] = vc.buf[i]
	}
	vc.bufN--
	vc.buf[vc.bufN] = nil
	return v
}

//go:norace
func (vc *vchan) pushSend(ps *pendingSend) {
	if vc.sendN == vq {
		panic("simhook: too many blocked senders")
	}
	vc.sendq[vc.sendN] = ps
	vc.sendN++
}

//go:norace
func (vc *vchan) popSend() *pendingSend {
	ps := vc.sendq[0]
	for i := 1; i < vc.sendN; i++ {
		vc.sendq[i-1] = vc.sendq[i]
	}
	vc.sendN--
	vc.sendq[vc.sendN] = nil
	return ps
}

const maxVChans = 256

var (
	vchanKeys [maxVChans]uintptr
	vchans    [maxVChans]*vchan
	vchanUsed int
)

//go:norace
func getVChan(id uintptr, capacity int) *vchan {
	for i := 0; i < vchanUsed; i++ {
		if vchanKeys[i] == id {
			return vchans[i]
		}
	}
	if vchanUsed == maxVChans {
		panic("simhook: too many channels in one case")
	}
	vc := &vchan{cap: capacity}
	vchanKeys[vchanUsed] = id
	vchans[vchanUsed] = vc
	vchanUsed++
	return vc
}

// ResetVirtual forgets all virtual channels and wait groups (between cases).
//
//go:norace
func ResetVirtual() {
	for i := 0; i < vchanUsed; i++ {
		vchans[i] = nil
	}
	vchanUsed = 0
	for i := 0; i < vwgUsed; i++ {
		vwgs[i] = nil
	}
	vwgUsed = 0
}

func chanID(ch any) uintptr { return reflect.ValueOf(ch).Pointer() }

//go:norace
func (vc *vchan) wakeReceiver() {
	if vc.recvN > 0 {
		k := vc.recvq[0]
		for i := 1; i < vc.recvN; i++ {
			vc.recvq[i-1] = vc.recvq[i]
		}
		vc.recvN--
		Sched.Wake(k)
	}
}

//go:norace
func vsend(vc *vchan, v any) {
	if vc.closed {
		panic("send on closed channel")
	}
	// Every operation on a channel both acquires and releases the channel's
	// synchronisation variable: a superset of the edges of the Go memory
	// model (which also orders the k-th receive before the (k+cap)-th send,
	// the basis of channel semaphores), so no false race reports.
	raceAcquire(unsafe.Pointer(&vc.syncVar))
	raceRelease(unsafe.Pointer(&vc.syncVar))
	if vc.bufN < vc.cap {
		vc.pushBuf(v)
		vc.wakeReceiver()
		return
	}
	ps := &pendingSend{task: Sched.Current(), val: v}
	vc.pushSend(ps)
	vc.wakeReceiver()
	for !ps.done {
		if vc.closed {
			panic("send on closed channel")
		}
		Sched.Block("chan send")
	}
	raceAcquire(unsafe.Pointer(&vc.syncVar)) // the receive happens before the send completes
}

//go:norace
func vrecv(vc *vchan) (any, bool) {
	for {
		if vc.bufN > 0 {
			v := vc.popBuf()
			if vc.sendN > 0 {
				ps := vc.popSend()
				vc.pushBuf(ps.val)
				ps.done = true
				Sched.Wake(ps.task)
			}
			raceAcquire(unsafe.Pointer(&vc.syncVar))
			raceRelease(unsafe.Pointer(&vc.syncVar))
			return v, true
		}
		if vc.sendN > 0 {
			ps := vc.popSend()
			ps.done = true
			raceAcquire(unsafe.Pointer(&vc.syncVar))
			raceRelease(unsafe.Pointer(&vc.syncVar))
			Sched.Wake(ps.task)
			return ps.val, true
		}
		if vc.closed {
			raceAcquire(unsafe.Pointer(&vc.syncVar))
			return nil, false
		}
		if vc.recvN == vq {
			panic("simhook: too many blocked receivers")
		}
		vc.recvq[vc.recvN] = Sched.Current()
		vc.recvN++
		Sched.Block("chan receive")
	}
}

// Send replaces `ch <- v`.
func Send[T any](ch chan<- T, v T) {
	if Sched == nil {
		ch <- v
		return
	}
	if h := SyncHook; h != nil {
		h() // a preferred yield point, like an atomic operation
	}
	vsend(getVChan(chanID(ch), cap(ch)), v)
}

// Recv replaces `<-ch`.
func Recv[T any](ch <-chan T) T {
	v, _ := Recv2(ch)
	return v
}

// Recv2 replaces `v, ok := <-ch`.
func Recv2[T any](ch <-chan T) (T, bool) {
	if Sched == nil {
		v, ok := <-ch
		return v, ok
	}
	if h := SyncHook; h != nil {
		h()
	}
	v, ok := vrecv(getVChan(chanID(ch), cap(ch)))
	if !ok || v == nil {
		var zero T
		if ok {
			// a nil interface value was sent
			if t, isT := v.(T); isT {
				return t, true
			}
		}
		return zero, ok
	}
	return v.(T), true
}

// RangeChan replaces the operand of `for v := range ch`.
func RangeChan[T any](ch <-chan T) iter.Seq[T] {
	return func(yield func(T) bool) {
		for {
			v, ok := Recv2(ch)
			if !ok {
				return
			}
			if !yield(v) {
				return
			}
		}
	}
}

// Close replaces close(ch).
func Close[T any](ch chan<- T) {
	if Sched == nil {
		close(ch)
		return
	}
	vclose(getVChan(chanID(ch), cap(ch)))
}

//go:norace
func vclose(vc *vchan) {
	if vc.closed {
		panic("close of closed channel")
	}
	vc.closed = true
	raceRelease(unsafe.Pointer(&vc.syncVar))
	for i := 0; i < vc.recvN; i++ {
		Sched.Wake(vc.recvq[i])
	}
	vc.recvN = 0
	for i := 0; i < vc.sendN; i++ {
		Sched.Wake(vc.sendq[i].task) // they will panic, as real senders do
	}
}

// ---- wait groups ----------------------------------------------------------------------

type vwg struct {
	n        int
	waiters  [vq]int
	waitersN int
	syncVar  byte
}

const maxVWG = 128

var (
	vwgKeys [maxVWG]unsafe.Pointer
	vwgs    [maxVWG]*vwg
	vwgUsed int
)

//go:norace
func getVWG(wg *sync.WaitGroup) *vwg {
	p := unsafe.Pointer(wg)
	for i := 0; i < vwgUsed; i++ {
		if vwgKeys[i] == p {
			return vwgs[i]
		}
	}
	if vwgUsed == maxVWG {
		panic("simhook: too many wait groups in one case")
	}
	w := &vwg{}
	vwgKeys[vwgUsed] = p
	vwgs[vwgUsed] = w
	vwgUsed++
	return w
}

// WGAdd, WGDone and WGWait replace the methods of sync.WaitGroup.
func WGAdd(wg *sync.WaitGroup, n int) {
	if Sched == nil {
		wg.Add(n)
		return
	}
	vwgAdd(getVWG(wg), n)
}

// WGDone replaces wg.Done().
func WGDone(wg *sync.WaitGroup) { WGAdd(wg, -1) }

//go:norace
func vwgAdd(w *vwg, n int) {
	if n < 0 {
		raceRelease(unsafe.Pointer(&w.syncVar))
	}
	w.n += n
	if w.n < 0 {
		panic("sync: negative WaitGroup counter")
	}
	if w.n == 0 {
		for i := 0; i < w.waitersN; i++ {
			Sched.Wake(w.waiters[i])
		}
		w.waitersN = 0
	}
}

// WGWait replaces wg.Wait().
func WGWait(wg *sync.WaitGroup) {
	if Sched == nil {
		wg.Wait()
		return
	}
	vwgWait(getVWG(wg))
}

//go:norace
func vwgWait(w *vwg) {
	for w.n > 0 {
		if w.waitersN == vq {
			panic("simhook: too many WaitGroup waiters")
		}
		w.waiters[w.waitersN] = Sched.Current()
		w.waitersN++
		Sched.Block("WaitGroup.Wait")
	}
	raceAcquire(unsafe.Pointer(&w.syncVar))
}
