//go:build race

package simhook

import (
	"runtime"
	"unsafe"
)

func raceAcquire(p unsafe.Pointer) { runtime.RaceAcquire(p) }
func raceRelease(p unsafe.Pointer) { runtime.RaceReleaseMerge(p) }
