// Worker for C07: shaping under call histories on one Context / Layouter,
// over tables that went through encode -> stored-data faults -> read, with a
// deterministic step budget, text conservation, a fresh-context reference
// and a second map order.
package main

import (
	"bytes"
	"fmt"
	"reflect"
	"sort"
	"strings"

	"golang.org/x/text/language"

	"seehuhn.de/go/sfnt"
	"seehuhn.de/go/sfnt/cmap"
	"seehuhn.de/go/sfnt/glyph"
	"seehuhn.de/go/sfnt/opentype/classdef"
	"seehuhn.de/go/sfnt/opentype/coverage"
	"seehuhn.de/go/sfnt/opentype/gdef"
	"seehuhn.de/go/sfnt/opentype/gtab"
	"seehuhn.de/go/sfnt/zzverif/simgen"
	"seehuhn.de/go/sfnt/zzverif/simhook"
	"seehuhn.de/go/sfnt/zzverif/tape"
	"seehuhn.de/go/sfnt/zzverif/wk"
)

const stepBudget = 200_000_000
const lengthCap = 1_000_000

// throughDisk encodes a table, optionally damages the bytes, and reads it
// back.  ok=false: the encoder refused the shape or the reader rejected the
// bytes (the case does not proceed with this table).
func gtabThroughDisk(c *wk.Case, info *gtab.Info, tp gtab.Type, damage bool) (*gtab.Info, bool) {
	var data []byte
	if pi := c.Guard(func() { data = info.Encode() }); pi != nil {
		c.Count("encoder_refused_shape", 1)
		return nil, false
	}
	if c.T.Chance(1, 5) {
		// the table as another font tool would write it: extension
		// lookups in a small table, sometimes with a shared offset
		var note string
		data, note = simgen.RewrapGtab(c.T, data, tp == gtab.TypeGpos, c.T.Chance(1, 2))
		if note != "" {
			c.Count("tables_rewritten_with_extension_lookups", 1)
			c.Logf("%s table: %s", tp, note)
		}
	}
	if damage {
		nf := 1 + c.T.Weighted(5, 2, 1)
		multiRange = 0
		regions := locate(info, data)
		if multiRange > 0 {
			c.Count("tables_with_multi_range_records_damaged", 1)
		}
		for i := 0; i < nf; i++ {
			var f simgen.Fault
			lo, hi := 0, len(data)
			if len(regions) > 0 && c.T.Chance(1, 3) {
				// aim at one coverage / class definition table inside the
				// encoded table (found by searching for its encoding)
				r := regions[c.T.Draw(len(regions))]
				lo, hi = r[0], r[1]
				c.Count("faults_aimed_at_coverage_or_classdef", 1)
			}
			if hi-lo < len(data) && c.T.Chance(1, 4) {
				data, f = simgen.OverlapRecords(c.T, data, lo, hi)
			} else {
				data, f = simgen.Corrupt(c.T, data, lo, hi, nil)
			}
			c.Count("fault_"+f.Kind, 1)
			c.Logf("%s table fault: %v", tp, f)
		}
	}
	var res *gtab.Info
	var err error
	if pi := c.Guard(func() {
		wk.Budget(stepBudget)
		res, err = gtab.Read(bytes.NewReader(data), tp)
	}); pi != nil {
		// totality of the reader is C02's property
		c.Count("reader_panicked_(C02)", 1)
		return nil, false
	}
	simhook.Next = ^uint64(0)
	if err != nil {
		c.Count("reader_rejected", 1)
		return nil, false
	}
	c.Count("reader_accepted", 1)
	return res, true
}

var multiRange int

var (
	covTableType = reflect.TypeOf(coverage.Table{})
	covSetType   = reflect.TypeOf(coverage.Set{})
	classDefType = reflect.TypeOf(classdef.Table{})
)

// locate finds the byte ranges of the coverage and class definition tables
// of info inside its encoding, by searching for their encodings.
func locate(info *gtab.Info, data []byte) [][2]int {
	var res [][2]int
	seen := map[string]bool{}
	add := func(enc []byte) {
		if len(enc) < 4 || seen[string(enc)] {
			return
		}
		seen[string(enc)] = true
		if i := bytes.Index(data, enc); i >= 0 {
			res = append(res, [2]int{i, i + len(enc)})
			if enc[0] == 0 && enc[1] == 2 && enc[3] >= 2 {
				multiRange++
			}
		}
	}
	var walk func(v reflect.Value)
	walk = func(v reflect.Value) {
		switch v.Type() {
		case covTableType:
			if t := v.Interface().(coverage.Table); len(t) > 0 {
				add(t.Encode())
			}
			return
		case covSetType:
			if t := v.Interface().(coverage.Set); len(t) > 0 {
				add(t.ToTable().Encode())
			}
			return
		case classDefType:
			if t := v.Interface().(classdef.Table); len(t) > 0 {
				add(t.Append(nil))
			}
			return
		}
		switch v.Kind() {
		case reflect.Ptr, reflect.Interface:
			if !v.IsNil() {
				walk(v.Elem())
			}
		case reflect.Struct:
			for i := 0; i < v.NumField(); i++ {
				if v.Type().Field(i).IsExported() {
					walk(v.Field(i))
				}
			}
		case reflect.Slice:
			if v.Type().Elem().Kind() == reflect.Struct || v.Type().Elem().Kind() == reflect.Ptr || v.Type().Elem().Kind() == reflect.Interface || v.Type().Elem().Kind() == reflect.Map || v.Type().Elem().Kind() == reflect.Slice {
				for i := 0; i < v.Len() && i < 64; i++ {
					walk(v.Index(i))
				}
			}
		}
	}
	defer func() { recover() }() // an encoder that refuses a shape: no regions
	for _, l := range info.LookupList {
		if l != nil {
			for _, st := range l.Subtables {
				walk(reflect.ValueOf(st))
			}
		}
	}
	return res
}

func gdefThroughDisk(c *wk.Case, tab *gdef.Table, damage bool) (*gdef.Table, bool) {
	var data []byte
	if pi := c.Guard(func() { data = tab.Encode() }); pi != nil {
		c.Count("encoder_refused_shape", 1)
		return nil, false
	}
	if damage {
		var f simgen.Fault
		data, f = simgen.Corrupt(c.T, data, 0, len(data), nil)
		c.Count("fault_"+f.Kind, 1)
		c.Logf("GDEF table fault: %v", f)
	}
	var res *gdef.Table
	var err error
	if pi := c.Guard(func() {
		wk.Budget(stepBudget)
		res, err = gdef.Read(bytes.NewReader(data))
	}); pi != nil {
		c.Count("reader_panicked_(C02)", 1)
		return nil, false
	}
	simhook.Next = ^uint64(0)
	if err != nil {
		c.Count("reader_rejected", 1)
		return nil, false
	}
	return res, true
}

// coveredGlyphs collects glyph ids mentioned by the lookups (so that
// sequences hit the rules).
func coveredGlyphs(info *gtab.Info) []glyph.ID {
	set := map[glyph.ID]bool{}
	add := func(g glyph.ID) { set[g] = true }
	for _, l := range info.LookupList {
		if l == nil {
			continue
		}
		for _, st := range l.Subtables {
			switch s := st.(type) {
			case *gtab.Gsub1_1:
				for g := range s.Cov {
					add(g)
				}
			case *gtab.Gsub1_2:
				for g := range s.Cov {
					add(g)
				}
			case *gtab.Gsub2_1:
				for g := range s.Cov {
					add(g)
				}
			case *gtab.Gsub3_1:
				for g := range s.Cov {
					add(g)
				}
			case *gtab.Gsub4_1:
				for g := range s.Cov {
					add(g)
				}
				for _, ll := range s.Repl {
					for _, lig := range ll {
						for _, g := range lig.In {
							add(g)
						}
					}
				}
			case *gtab.Gsub8_1:
				for g := range s.Input {
					add(g)
				}
			case *gtab.SeqContext1:
				for g := range s.Cov {
					add(g)
				}
				for _, rr := range s.Rules {
					for _, r := range rr {
						for _, g := range r.Input {
							add(g)
						}
					}
				}
			case *gtab.SeqContext2:
				for g := range s.Cov {
					add(g)
				}
				for g := range s.Input {
					add(g)
				}
			case *gtab.SeqContext3:
				for _, cs := range s.Input {
					for g := range cs {
						add(g)
					}
				}
			case *gtab.ChainedSeqContext1:
				for g := range s.Cov {
					add(g)
				}
				for _, rr := range s.Rules {
					for _, r := range rr {
						for _, g := range r.Input {
							add(g)
						}
						for _, g := range r.Backtrack {
							add(g)
						}
						for _, g := range r.Lookahead {
							add(g)
						}
					}
				}
			case *gtab.ChainedSeqContext2:
				for g := range s.Cov {
					add(g)
				}
				for g := range s.Input {
					add(g)
				}
			case *gtab.ChainedSeqContext3:
				for _, cs := range s.Input {
					for g := range cs {
						add(g)
					}
				}
				for _, cs := range s.Backtrack {
					for g := range cs {
						add(g)
					}
				}
				for _, cs := range s.Lookahead {
					for g := range cs {
						add(g)
					}
				}
			case *gtab.Gpos1_1:
				for g := range s.Cov {
					add(g)
				}
			case *gtab.Gpos1_2:
				for g := range s.Cov {
					add(g)
				}
			case gtab.Gpos2_1:
				for p := range s {
					add(p.Left)
					add(p.Right)
				}
			case *gtab.Gpos2_2:
				for g := range s.Cov {
					add(g)
				}
				for g := range s.Class2 {
					add(g)
				}
			case *gtab.Gpos4_1:
				for g := range s.MarkCov {
					add(g)
				}
				for g := range s.BaseCov {
					add(g)
				}
			case *gtab.Gpos6_1:
				for g := range s.Mark1Cov {
					add(g)
				}
				for g := range s.Mark2Cov {
					add(g)
				}
			}
		}
	}
	var res []glyph.ID
	for g := range set {
		res = append(res, g)
	}
	sort.Slice(res, func(i, j int) bool { return res[i] < res[j] })
	return res
}

// unimplemented reports whether the table carries positioning data the
// library declares unimplemented (vertical advance, device/variation
// offsets, GPOS type 5): outside the property's domain.
func unimplemented(info *gtab.Info) bool {
	bad := func(v *gtab.GposValueRecord) bool {
		return v != nil && (v.YAdvance != 0 || v.XPlacementDevOffs != 0 || v.YPlacementDevOffs != 0 || v.XAdvanceDevOffs != 0 || v.YAdvanceDevOffs != 0)
	}
	for _, l := range info.LookupList {
		if l == nil {
			continue
		}
		for _, st := range l.Subtables {
			switch s := st.(type) {
			case *gtab.Gpos1_1:
				if bad(s.Adjust) {
					return true
				}
			case *gtab.Gpos1_2:
				for _, v := range s.Adjust {
					if bad(v) {
						return true
					}
				}
			case gtab.Gpos2_1:
				for _, p := range s {
					if p != nil && (bad(p.First) || bad(p.Second)) {
						return true
					}
				}
			case *gtab.Gpos2_2:
				for _, row := range s.Adjust {
					for _, p := range row {
						if p != nil && (bad(p.First) || bad(p.Second)) {
							return true
						}
					}
				}
			case *gtab.Gpos5_1:
				return true
			}
		}
	}
	return false
}

func genSeq(t *tape.Tape, hot []glyph.ID, n int) []glyph.Info {
	l := t.Range(0, 10)
	switch t.Weighted(12, 3, 1) {
	case 1:
		l = t.Range(11, 40)
	case 2:
		l = t.Range(41, 200)
	}
	seq := make([]glyph.Info, l)
	for i := range seq {
		var g glyph.ID
		switch {
		case len(hot) > 0 && !t.Chance(1, 4):
			g = hot[t.Draw(len(hot))]
		case t.Chance(1, 8):
			g = glyph.ID([]int{0, 0xFFFF, 0xFFFE, 0x8000, n, n + 1}[t.Draw(6)])
		default:
			g = glyph.ID(t.Draw(n + 2))
		}
		seq[i].GID = g
		switch t.Weighted(8, 1, 1) {
		case 0:
			seq[i].Text = []rune{rune(0x1000 + i)}
		case 1:
			seq[i].Text = nil
		default:
			seq[i].Text = []rune{rune(0x1000 + i), rune(0x5000 + i)}
		}
	}
	return seq
}

func copySeq(seq []glyph.Info) []glyph.Info {
	res := make([]glyph.Info, len(seq))
	for i, g := range seq {
		res[i] = g
		if g.Text != nil {
			res[i].Text = append([]rune(nil), g.Text...)
		}
	}
	return res
}

func textBag(seq []glyph.Info) map[rune]int {
	m := map[rune]int{}
	for _, g := range seq {
		for _, r := range g.Text {
			m[r]++
		}
	}
	return m
}

func bagDiff(a, b map[rune]int) string {
	var keys []rune
	for r := range a {
		keys = append(keys, r)
	}
	for r := range b {
		if _, ok := a[r]; !ok {
			keys = append(keys, r)
		}
	}
	sort.Slice(keys, func(i, j int) bool { return keys[i] < keys[j] })
	for _, r := range keys {
		if a[r] != b[r] {
			return fmt.Sprintf("character %U occurs %d time(s) in the input and %d time(s) in the output", r, a[r], b[r])
		}
	}
	return ""
}

func seqString(seq []glyph.Info) string {
	var sb strings.Builder
	for i, g := range seq {
		if i > 0 {
			sb.WriteByte(' ')
		}
		fmt.Fprintf(&sb, "%d", g.GID)
		if i > 30 {
			sb.WriteString(" ...")
			break
		}
	}
	return sb.String()
}

func subtableKinds(info *gtab.Info) string {
	set := map[string]bool{}
	for _, l := range info.LookupList {
		if l == nil {
			continue
		}
		for _, st := range l.Subtables {
			set[strings.TrimPrefix(fmt.Sprintf("%T", st), "*gtab.")] = true
		}
	}
	var ks []string
	for k := range set {
		ks = append(ks, k)
	}
	sort.Strings(ks)
	return strings.Join(ks, ",")
}

// growthBound is an upper bound for the number of glyphs the given lookups can
// make of a text of n glyphs: a multiple substitution multiplies the length
// by the longest replacement, a contextual lookup - whose up to 64 nested
// actions per position may each be such a substitution - by 1 + 64 x (longest
// replacement - 1).  Beyond a few million glyphs "terminates" is true but not
// observable within any step budget (and the engine's stack bookkeeping is
// quadratic in the length), so such texts are not applied (counted, not judged).
func growthBound(info *gtab.Info, lookups []gtab.LookupIndex, n int) float64 {
	maxRepl := 1
	for _, lt := range info.LookupList {
		if lt == nil {
			continue
		}
		for _, st := range lt.Subtables {
			if s, ok := st.(*gtab.Gsub2_1); ok {
				for _, r := range s.Repl {
					if len(r) > maxRepl {
						maxRepl = len(r)
					}
				}
			}
		}
	}
	bound := float64(n)
	if bound < 1 {
		bound = 1
	}
	for _, li := range lookups {
		if int(li) >= len(info.LookupList) || info.LookupList[li] == nil {
			continue
		}
		f := 1.0
		for _, st := range info.LookupList[li].Subtables {
			switch s := st.(type) {
			case *gtab.Gsub2_1:
				for _, r := range s.Repl {
					if float64(len(r)) > f {
						f = float64(len(r))
					}
				}
			case *gtab.SeqContext1, *gtab.SeqContext2, *gtab.SeqContext3, *gtab.ChainedSeqContext1, *gtab.ChainedSeqContext2, *gtab.ChainedSeqContext3:
				if g := 1 + 64*float64(maxRepl-1); g > f {
					f = g
				}
			}
		}
		bound *= f
	}
	return bound
}

const growthLimit = 2e6

// applyOnce runs one Apply with the standard oracles and returns the result.
func applyOnce(c *wk.Case, what string, ctx *gtab.Context, in []glyph.Info, order uint64) []glyph.Info {
	var out []glyph.Info
	bag := textBag(in)
	work := copySeq(in)
	simhook.OrderID = order
	pi := c.Guard(func() {
		wk.Budget(stepBudget)
		out = ctx.Apply(work)
	})
	simhook.OrderID = 0
	simhook.Next = ^uint64(0)
	if pi != nil {
		c.FailPanic(what, pi)
	}
	c.Count("apply_calls", 1)
	if len(out) > lengthCap {
		// Not judged: rules that replace one glyph by several and are applied
		// again by nested lookups can legitimately grow the sequence
		// geometrically; whether a given length is "within what the matched
		// substitutions can produce" needs a reference shaper (C06).
		c.Count("outputs_longer_than_1e6_glyphs_(not_judged)", 1)
	}
	if d := bagDiff(bag, textBag(out)); d != "" {
		c.Fail("text-not-conserved", what, "%s on [%s]: %s; output [%s]", what, seqString(in), d, seqString(out))
	}
	return copySeq(out)
}

func allLookups(info *gtab.Info, t *tape.Tape) []gtab.LookupIndex {
	n := len(info.LookupList)
	var res []gtab.LookupIndex
	switch t.Weighted(5, 2, 1) {
	case 0:
		for i := 0; i < n; i++ {
			res = append(res, gtab.LookupIndex(i))
		}
	case 1:
		for i := 0; i < n; i++ {
			if t.Chance(1, 2) {
				res = append(res, gtab.LookupIndex(i))
			}
		}
	default:
		for i := 0; i < n+2; i++ {
			res = append(res, gtab.LookupIndex(t.Draw(n+2))) // any order, repeats, out of range
		}
	}
	return res
}

func run(c *wk.Case) {
	t := c.T
	n := t.Range(2, 60)
	g := &simgen.LookupGen{T: t, N: n, Wild: !t.Chance(1, 4), MarkMode: t.Chance(1, 3)}
	var gd *gdef.Table
	if g.MarkMode || t.Chance(3, 4) {
		gd = g.Gdef()
	}
	gsub := t.Chance(2, 3)
	tp := gtab.Type(gtab.TypeGpos)
	if gsub {
		tp = gtab.TypeGsub
	}
	raw := g.Info(gsub)
	damage := t.Chance(1, 2)
	var ruleSeqs [][]glyph.ID
	if gsub && t.Chance(1, 8) {
		// one contextual rule whose nested actions change the length of the
		// sequence under other flags than its own (simgen.NestedMergeGsub)
		raw, gd, n, ruleSeqs = simgen.NestedMergeGsub(t)
		damage = damage && t.Chance(1, 3)
		c.Count("tables_built_around_a_length-changing_nested_rule", 1)
	}
	info, ok := gtabThroughDisk(c, raw, tp, damage)
	if !ok {
		c.Trivial()
		return
	}
	if gd != nil {
		var ok bool
		gd, ok = gdefThroughDisk(c, gd, damage && t.Chance(1, 3))
		if !ok {
			gd = nil
		}
	}
	if unimplemented(info) {
		c.Count("excluded_unimplemented_positioning_data", 1)
		c.Trivial()
		return
	}
	kinds := subtableKinds(info)
	c.Sample = map[string]any{"table": tp.String(), "wild": g.Wild, "damaged": damage, "lookups": len(info.LookupList), "subtables": kinds, "gdef": gd != nil, "glyphs": n}
	c.Logf("%s table wild=%v damaged=%v lookups=%d [%s] gdef=%v", tp, g.Wild, damage, len(info.LookupList), kinds, gd != nil)
	c.Sig(simgen.Digest(info), simgen.Digest(gd))
	c.Class(fmt.Sprintf("%s|wild=%v|damaged=%v|gdef=%v|markmode=%v", tp, g.Wild, damage, gd != nil, g.MarkMode))
	for _, k := range strings.Split(kinds, ",") {
		c.Class("subtable|" + k)
	}

	hot := coveredGlyphs(info)
	lookups := allLookups(info, t)
	ord2 := 1 + uint64(t.Draw(1<<20))

	// ---- history on one Context
	reused := gtab.NewContext(info.LookupList, gd, lookups)
	calls := t.Range(2, 8)
	for k := 0; k < calls; k++ {
		in := genSeq(t, hot, n)
		if len(ruleSeqs) > 0 && t.Chance(1, 2) {
			// text that follows the rule and may end in the middle of a match
			gg := ruleSeqs[t.Draw(len(ruleSeqs))]
			in = make([]glyph.Info, len(gg))
			for i, gid := range gg {
				in[i] = glyph.Info{GID: gid, Text: []rune{rune(0x1000 + i)}}
			}
		}
		if growthBound(info, lookups, len(in)) > growthLimit {
			c.Count("texts_not_applied:_growth_bound_beyond_2e6_glyphs", 1)
			continue
		}
		c.Logf("call %d: Apply([%s]) lookups %v", k, seqString(in), lookups)
		got := applyOnce(c, "Context.Apply", reused, in, 0)
		fresh := applyOnce(c, "Context.Apply(fresh)", gtab.NewContext(info.LookupList, gd, lookups), in, 0)
		if d := simgen.DeepDiff(fresh, got, 0, false); d != "" {
			c.Fail("history-dependence", "Context.Apply", "call %d on a reused Context differs from the same call on a fresh Context: %s\n  input  [%s]\n  reused [%s]\n  fresh  [%s]", k, d, seqString(in), seqString(got), seqString(fresh))
		}
		other := applyOnce(c, "Context.Apply(order 2)", gtab.NewContext(info.LookupList, gd, lookups), in, ord2)
		if d := simgen.DeepDiff(fresh, other, 0, false); d != "" {
			sites := wk.BlameSites(0, ord2, func() uint64 {
				return simgen.Digest(gtab.NewContext(info.LookupList, gd, lookups).Apply(copySeq(in)))
			})
			c.Fail("order-dependence", "Context.Apply/"+strings.Join(sites, "+"), "Apply differs between map order 0 and %d: %s; responsible map iteration site(s): %v", ord2, d, sites)
		}
	}
	c.Count("histories", 1)

	// ---- history on one Layouter over a font carrying the tables
	if t.Chance(1, 2) {
		f := simgen.GenFont(t, simgen.KindTrueType, 0)
		m := cmap.Format4{}
		nf := f.NumGlyphs()
		for i := 1; i < nf && i < 80; i++ {
			m[uint16(0x40+i)] = glyph.ID(i)
		}
		if len(m) == 0 {
			return
		}
		f.InstallCMap(m)
		f.Gdef = gd
		f.Gsub, f.Gpos = nil, nil
		if gsub {
			f.Gsub = info
		} else {
			f.Gpos = info
		}
		feat := map[string]bool{}
		for _, ft := range info.FeatureList {
			if ft != nil {
				feat[ft.Tag] = true
			}
		}
		mk := func() *sfnt.Layouter {
			var l *sfnt.Layouter
			var err error
			c.MustNotPanic("NewLayouter", func() { l, err = f.NewLayouter(language.Und, feat, feat) })
			if err != nil {
				return nil
			}
			return l
		}
		reusedL := mk()
		if reusedL == nil {
			return
		}
		var every []gtab.LookupIndex
		for i := range info.LookupList {
			every = append(every, gtab.LookupIndex(i))
		}
		if growthBound(info, every, 10) > growthLimit {
			c.Count("layouter_histories_not_run:_growth_bound_beyond_2e6_glyphs", 1)
			return
		}
		for k := t.Range(2, 5); k > 0; k-- {
			var sb strings.Builder
			for i := t.Range(0, 10); i > 0; i-- {
				r := rune(0x41 + t.Draw(min(nf, 79)))
				if len(hot) > 0 && t.Chance(2, 3) {
					h := int(hot[t.Draw(len(hot))])
					if h >= 1 && h < nf && h < 80 {
						r = rune(0x40 + h)
					}
				}
				sb.WriteRune(r)
			}
			s := sb.String()
			layout := func(what string, l *sfnt.Layouter) []glyph.Info {
				var out []glyph.Info
				pi := c.Guard(func() {
					wk.Budget(stepBudget)
					out = copySeq(l.Layout(s))
				})
				simhook.Next = ^uint64(0)
				if pi != nil {
					c.FailPanic(what, pi)
				}
				want := map[rune]int{}
				for _, r := range s {
					want[r]++
				}
				if d := bagDiff(want, textBag(out)); d != "" {
					c.Fail("text-not-conserved", what, "%s(%q): %s", what, s, d)
				}
				c.Count("layout_calls", 1)
				return out
			}
			got := layout("Layouter.Layout", reusedL)
			freshL := mk()
			if freshL == nil {
				return
			}
			fresh := layout("Layouter.Layout(fresh)", freshL)
			if d := simgen.DeepDiff(fresh, got, 0, false); d != "" {
				c.Fail("history-dependence", "Layouter.Layout", "Layout(%q) on a reused Layouter differs from a fresh one: %s", s, d)
			}
		}
		c.Count("layouter_histories", 1)
	}
}

func main() {
	wk.Main(&wk.Property{ID: "C07", Run: run})
}
