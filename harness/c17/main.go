// Worker for C17: parser.Parser against a slice-backed model, driven by
// tape-chosen operation histories over a reader with tape-chosen short reads
// and EOF forms.
package main

import (
	"bytes"
	"errors"
	"fmt"
	"io"

	"seehuhn.de/go/sfnt/parser"
	"seehuhn.de/go/sfnt/zzverif/simio"
	"seehuhn.de/go/sfnt/zzverif/tape"
	"seehuhn.de/go/sfnt/zzverif/wk"
)

type opKind int

const (
	opSeek opKind = iota
	opDiscard
	opU8
	opU16
	opI16
	opU32
	opU16Slice
	opReadBytes
	opRead
	opPos
	opSize
	numOps
)

var opNames = [...]string{"SeekPos", "Discard", "ReadUint8", "ReadUint16", "ReadInt16", "ReadUint32",
	"ReadUint16Slice", "ReadBytes", "Read", "Pos", "Size"}

type op struct {
	kind opKind
	arg  int64
}

func (o op) String() string {
	switch o.kind {
	case opSeek, opDiscard, opReadBytes, opRead:
		return fmt.Sprintf("%s(%d)", opNames[o.kind], o.arg)
	}
	return opNames[o.kind] + "()"
}

// boundary sizes and the boundary op alphabet used by the enumerated cases
var enumSizes = []int{0, 1, 3, 1023, 1024, 1025, 2047, 2048, 2050, 3073}

func enumAlphabet(size int) []op {
	var ops []op
	for _, p := range []int64{0, 1, 1022, 1023, 1024, 1025, 2047, 2048, 2049, int64(size) - 2, int64(size) - 1, int64(size), int64(size) + 1, int64(size) + 2000} {
		if p >= 0 {
			ops = append(ops, op{opSeek, p})
		}
	}
	for _, n := range []int64{0, 1, 2, 1023, 1024, 1025} {
		ops = append(ops, op{opDiscard, n})
	}
	ops = append(ops, op{opU8, 0}, op{opU16, 0}, op{opI16, 0}, op{opU32, 0}, op{opU16Slice, 0})
	for _, n := range []int64{0, 1, 2, 1023, 1024} {
		ops = append(ops, op{opReadBytes, n})
	}
	for _, n := range []int64{0, 1, 3, 1024, 1025, 2049, 3000} {
		ops = append(ops, op{opRead, n})
	}
	return ops
}

// enumCount returns the number of enumerated cases for histories up to
// length maxLen (per size, two reader behaviours).
func enumCount(maxLen int) uint64 {
	var total uint64
	for _, size := range enumSizes {
		a := uint64(len(enumAlphabet(size)))
		n := uint64(0)
		pow := uint64(1)
		for l := 1; l <= maxLen; l++ {
			pow *= a
			n += pow
		}
		total += 2 * n
	}
	return total
}

// enumCase decodes index i into (size, short-read flag, history).
func enumCase(i uint64, maxLen int) (int, bool, []op) {
	for _, size := range enumSizes {
		alpha := enumAlphabet(size)
		a := uint64(len(alpha))
		for _, short := range []bool{false, true} {
			pow := uint64(1)
			for l := 1; l <= maxLen; l++ {
				pow *= a
				if i < pow {
					hist := make([]op, l)
					x := i
					for j := l - 1; j >= 0; j-- {
						hist[j] = alpha[x%a]
						x /= a
					}
					return size, short, hist
				}
				i -= pow
			}
		}
	}
	panic("enumCase: index out of range")
}

func enumLen(tier string) int {
	if tier == "thorough" {
		return 3
	}
	return 2
}

func genSize(t *tape.Tape) int {
	switch t.Weighted(3, 5, 2) {
	case 0:
		return t.Range(0, 5000)
	case 1:
		base := []int{0, 1, 2, 1023, 1024, 1025, 2047, 2048, 2049, 3071, 3072, 3073, 4096, 5000}
		return base[t.Draw(len(base))]
	default:
		return t.Range(0, 40)
	}
}

func genOffset(t *tape.Tape, size int, cur int64) int64 {
	if t.Chance(1, 40) {
		// "SeekPos(p) for any p >= 0": also offsets of 4 GiB and more
		k := int64(1 + t.Draw(3))
		return k<<32 + int64(t.Range(0, 2200)) - 1100 + cur%2048
	}
	switch t.Weighted(3, 4, 4, 2, 3, 2) {
	case 0:
		return int64(t.Range(0, size))
	case 1:
		k := int64(t.Range(0, 5)) * 1024
		return max64(0, k+int64(t.Range(0, 4))-2)
	case 2:
		return max64(0, int64(size)-int64(t.Range(0, 5)))
	case 3:
		return int64(size) + int64(t.Range(1, 3000))
	case 4:
		return max64(0, cur+int64(t.Range(0, 2100))-1050)
	default:
		return max64(0, cur+int64(t.Range(0, 8))-4)
	}
}

func max64(a, b int64) int64 {
	if a > b {
		return a
	}
	return b
}

func genOp(t *tape.Tape, size int, cur int64) op {
	k := opKind(t.Weighted(6, 4, 5, 5, 2, 5, 3, 6, 5, 1, 1))
	o := op{kind: k}
	switch k {
	case opSeek:
		o.arg = genOffset(t, size, cur)
	case opDiscard:
		if t.Chance(1, 60) {
			o.arg = int64(1+t.Draw(2))<<32 + int64(t.Range(0, 10))
			break
		}
		switch t.Weighted(4, 2, 2) {
		case 0:
			o.arg = int64(t.Range(0, 40))
		case 1:
			o.arg = int64(t.Range(1000, 1050))
		default:
			o.arg = int64(t.Range(0, 6000))
		}
	case opReadBytes:
		switch t.Weighted(4, 3, 2) {
		case 0:
			o.arg = int64(t.Range(0, 64))
		case 1:
			o.arg = int64(1024 - t.Range(0, 3))
		default:
			o.arg = int64(t.Range(0, 1024))
		}
	case opRead:
		switch t.Weighted(4, 3, 3) {
		case 0:
			o.arg = int64(t.Range(0, 64))
		case 1:
			o.arg = int64(t.Range(1020, 1030) * t.Range(1, 2))
		default:
			o.arg = int64(t.Range(0, 3000))
		}
	}
	return o
}

func be(b []byte) uint64 {
	var v uint64
	for _, x := range b {
		v = v<<8 | uint64(x)
	}
	return v
}

type world struct {
	c    *wk.Case
	data []byte
	rs   *simio.ReadSeekSizer
	p    *parser.Parser
	mpos int64 // model position
	step int
}

func (w *world) fail(o op, format string, args ...any) {
	w.c.Fail("model-mismatch", opNames[o.kind], "step %d %s at pos %d (size %d): %s",
		w.step, o, w.mpos, len(w.data), fmt.Sprintf(format, args...))
}

// ioClass summarises what the parser asked of the reader during one op.
func (w *world) ioClass(ev0 int) string {
	seek, read, eof, short := false, false, false, false
	for _, e := range w.rs.Events[ev0:] {
		if e.Seek {
			seek = true
		} else {
			read = true
			if e.EOF {
				eof = true
			}
			if e.N < e.Len {
				short = true
			}
		}
	}
	s := "noio"
	switch {
	case seek && read:
		s = "seek+read"
	case seek:
		s = "seek"
	case read:
		s = "refill"
	}
	if short {
		s += "+short"
	}
	if eof {
		s += "+eof"
	}
	return s
}

func (w *world) relation(need int64) string {
	size := int64(len(w.data))
	switch {
	case w.mpos > size:
		return "past-eof"
	case w.mpos == size:
		return "at-eof"
	case w.mpos+need > size:
		return "crosses-eof"
	case w.mpos+need == size:
		return "ends-at-eof"
	}
	return "inside"
}

func (w *world) checkFailure(o op, start int64, n int64, err error) {
	if !errors.Is(err, io.ErrUnexpectedEOF) {
		w.fail(o, "read past the end must fail with an unexpected-EOF error, got %v", err)
	}
	pos := w.p.Pos()
	size := int64(len(w.data))
	hi := max64(start+n, size)
	if pos < start+n || pos > hi {
		w.fail(o, "after a failed read Pos=%d, want within [%d,%d]", pos, start+n, hi)
	}
	w.mpos = pos // the statement does not say how much a failed read consumes
}

func (w *world) fixed(o op, need int64, got uint64, err error) {
	size := int64(len(w.data))
	start := w.mpos
	if start+need <= size {
		if err != nil {
			w.fail(o, "unexpected error %v", err)
		}
		want := be(w.data[start : start+need])
		if o.kind == opI16 {
			want = uint64(int64(int16(want)))
			got = uint64(int64(int16(got)))
		}
		if got != want {
			w.fail(o, "value %#x, want %#x", got, want)
		}
		w.mpos += need
		if w.p.Pos() != w.mpos {
			w.fail(o, "Pos=%d, want %d", w.p.Pos(), w.mpos)
		}
		return
	}
	if err == nil {
		w.fail(o, "read past the end succeeded with value %#x", got)
	}
	w.checkFailure(o, start, 0, err)
}

func (w *world) apply(o op) {
	c := w.c
	size := int64(len(w.data))
	ev0 := len(w.rs.Events)
	need := int64(0)
	failed := false
	switch o.kind {
	case opSeek:
		err := w.p.SeekPos(o.arg)
		if err != nil {
			w.fail(o, "unexpected error %v", err)
		}
		w.mpos = o.arg
		if w.p.Pos() != w.mpos {
			w.fail(o, "Pos=%d, want %d", w.p.Pos(), w.mpos)
		}
	case opDiscard:
		err := w.p.Discard(int(o.arg))
		if err != nil {
			w.fail(o, "unexpected error %v", err)
		}
		w.mpos += o.arg
		if w.p.Pos() != w.mpos {
			w.fail(o, "Pos=%d, want %d", w.p.Pos(), w.mpos)
		}
	case opU8:
		need = 1
		v, err := w.p.ReadUint8()
		failed = err != nil
		w.fixed(o, 1, uint64(v), err)
	case opU16:
		need = 2
		v, err := w.p.ReadUint16()
		failed = err != nil
		w.fixed(o, 2, uint64(v), err)
	case opI16:
		need = 2
		v, err := w.p.ReadInt16()
		failed = err != nil
		w.fixed(o, 2, uint64(uint16(v)), err)
	case opU32:
		need = 4
		v, err := w.p.ReadUint32()
		failed = err != nil
		w.fixed(o, 4, uint64(v), err)
	case opU16Slice:
		start := w.mpos
		vals, err := w.p.ReadUint16Slice()
		failed = err != nil
		need = 2
		if start+2 <= size {
			n := int64(be(w.data[start : start+2]))
			need = 2 + 2*n
		}
		if start+need <= size {
			if err != nil {
				w.fail(o, "unexpected error %v", err)
			}
			n := int(need/2 - 1)
			if len(vals) != n {
				w.fail(o, "got %d values, want %d", len(vals), n)
			}
			for i, v := range vals {
				want := uint16(be(w.data[start+2+2*int64(i) : start+4+2*int64(i)]))
				if v != want {
					w.fail(o, "value %d is %#x, want %#x", i, v, want)
				}
			}
			w.mpos += need
			if w.p.Pos() != w.mpos {
				w.fail(o, "Pos=%d, want %d", w.p.Pos(), w.mpos)
			}
		} else {
			if err == nil {
				w.fail(o, "read past the end succeeded with %d values", len(vals))
			}
			if vals != nil {
				w.fail(o, "failed read yielded partial data (%d values) together with an error", len(vals))
			}
			w.checkFailure(o, start, 0, err)
		}
	case opReadBytes:
		need = o.arg
		start := w.mpos
		b, err := w.p.ReadBytes(int(o.arg))
		failed = err != nil
		if need == 0 && start > size {
			if len(b) != 0 {
				w.fail(o, "zero-length read returned %d bytes", len(b))
			}
			w.mpos = w.p.Pos()
			c.Count("unjudged_zero_length_past_eof", 1)
		} else if start+need <= size {
			if err != nil {
				w.fail(o, "unexpected error %v", err)
			}
			if !bytes.Equal(b, w.data[start:start+need]) {
				w.fail(o, "wrong bytes: got % x..., want % x...", head(b), head(w.data[start:start+need]))
			}
			w.mpos += need
			if w.p.Pos() != w.mpos {
				w.fail(o, "Pos=%d, want %d", w.p.Pos(), w.mpos)
			}
		} else {
			if err == nil {
				w.fail(o, "read past the end succeeded with %d bytes", len(b))
			}
			if len(b) != 0 {
				w.fail(o, "failed read yielded %d bytes of partial data together with an error", len(b))
			}
			w.checkFailure(o, start, 0, err)
		}
	case opRead:
		need = o.arg
		start := w.mpos
		buf := make([]byte, o.arg)
		for i := range buf {
			buf[i] = 0xA5
		}
		n, err := w.p.Read(buf)
		failed = err != nil
		if n < 0 || int64(n) > need {
			w.fail(o, "returned count %d out of range", n)
		}
		if need == 0 && start > size {
			// a zero-length read beyond the end consumes nothing: the
			// statement does not decide whether it "passes the end"
			w.mpos = w.p.Pos()
			c.Count("unjudged_zero_length_past_eof", 1)
		} else if start+need <= size {
			if err != nil || int64(n) != need {
				w.fail(o, "got (%d, %v), want (%d, nil)", n, err, need)
			}
			if !bytes.Equal(buf, w.data[start:start+need]) {
				w.fail(o, "wrong bytes")
			}
			w.mpos += need
			if w.p.Pos() != w.mpos {
				w.fail(o, "Pos=%d, want %d", w.p.Pos(), w.mpos)
			}
		} else {
			if err == nil {
				w.fail(o, "read past the end reported success (n=%d)", n)
			}
			avail := max64(0, size-start)
			if int64(n) > avail {
				w.fail(o, "reported %d bytes but only %d exist", n, avail)
			}
			if n > 0 && !bytes.Equal(buf[:n], w.data[start:start+int64(n)]) {
				w.fail(o, "the %d bytes reported as read are wrong", n)
			}
			w.checkFailure(o, start, int64(n), err)
		}
	case opPos:
		if w.p.Pos() != w.mpos {
			w.fail(o, "Pos=%d, want %d", w.p.Pos(), w.mpos)
		}
	case opSize:
		if w.p.Size() != size {
			w.fail(o, "Size=%d, want %d", w.p.Size(), size)
		}
	}
	res := "ok"
	if failed {
		res = "fail"
		c.Count("failed_reads", 1)
	}
	cls := opNames[o.kind] + "|" + w.relation(need) + "|" + w.ioClass(ev0) + "|" + res
	c.Class(cls)
	c.SigString(cls)
	c.Sig(uint64(o.arg))
	c.Count("ops", 1)
	c.Logf("step %d %s -> %s pos=%d io=%s", w.step, o, res, w.mpos, w.ioClass(ev0))
}

func head(b []byte) []byte {
	if len(b) > 8 {
		return b[:8]
	}
	return b
}

func run(c *wk.Case) {
	t := c.T
	nEnum := enumCount(enumLen(c.Tier))
	var size int
	var hist []op
	short := true
	enumerated := c.Index < nEnum
	if enumerated {
		size, short, hist = enumCase(c.Index, enumLen(c.Tier))
		c.Count("enumerated_histories", 1)
	} else {
		size = genSize(t)
		short = t.Chance(3, 4)
	}
	data := t.Bytes(size)
	if t.Chance(1, 4) {
		// make uint16 counts small now and then so that ReadUint16Slice succeeds
		for i := 0; i+1 < len(data); i += 2 {
			data[i] = 0
			data[i+1] &= 0x1f
		}
	}
	var rt *tape.Tape
	if short {
		rt = t
	}
	rs := simio.NewReadSeekSizer(data, rt)
	rs.Record = true
	w := &world{c: c, data: data, rs: rs}
	var done []op
	c.Logf("input size %d, short reads %v, enumerated %v", size, short, enumerated)
	pi := c.Guard(func() {
		w.p = parser.New(rs)
		if w.p.Pos() != 0 {
			c.Fail("model-mismatch", "New", "new parser at Pos=%d", w.p.Pos())
		}
		n := len(hist)
		if !enumerated {
			n = t.Range(1, 60)
		}
		for i := 0; i < n; i++ {
			w.step = i
			var o op
			if enumerated {
				o = hist[i]
			} else {
				o = genOp(t, size, w.mpos)
			}
			done = append(done, o)
			w.apply(o)
		}
	})
	if pi != nil {
		c.FailPanic("parser history", pi)
	}
	c.Count("histories", 1)
	c.Count("short_reads", rs.ShortReads)
	c.Count("zero_reads", rs.ZeroReads)
	c.Count("eof_with_data", rs.EOFData)
	c.Count("eof_bare", rs.EOFBare)
	c.Count("seeks", rs.Seeks)
	c.Count("reader_reads", rs.Reads)
	c.Sig(uint64(size))
	if c.Sample == nil {
		var hs []string
		for _, o := range done {
			hs = append(hs, o.String())
		}
		c.Sample = map[string]any{"input_len": size, "short_reads": short, "history": hs}
	}
}

func main() {
	wk.Main(&wk.Property{ID: "C17", Run: run})
}
