// Package simgen builds the workload of the simulation from the choice tape:
// font values (TrueType and CFF, simple and CID-keyed), lookups and GDEF
// data, and the seed corpus (the twelve Go fonts that are already in the
// module cache).  Everything downstream - files, tables - is derived from
// these values by the library's own writer in the same run.
package simgen

import (
	"bytes"
	"fmt"
	"math"
	"time"

	"golang.org/x/image/font/gofont/gobold"
	"golang.org/x/image/font/gofont/gobolditalic"
	"golang.org/x/image/font/gofont/goitalic"
	"golang.org/x/image/font/gofont/gomedium"
	"golang.org/x/image/font/gofont/gomediumitalic"
	"golang.org/x/image/font/gofont/gomono"
	"golang.org/x/image/font/gofont/gomonobold"
	"golang.org/x/image/font/gofont/gomonobolditalic"
	"golang.org/x/image/font/gofont/gomonoitalic"
	"golang.org/x/image/font/gofont/goregular"
	"golang.org/x/image/font/gofont/gosmallcaps"
	"golang.org/x/image/font/gofont/gosmallcapsitalic"

	"seehuhn.de/go/geom/matrix"
	"seehuhn.de/go/postscript/cid"
	"seehuhn.de/go/postscript/funit"
	"seehuhn.de/go/postscript/type1"

	"seehuhn.de/go/sfnt"
	"seehuhn.de/go/sfnt/cff"
	"seehuhn.de/go/sfnt/cmap"
	"seehuhn.de/go/sfnt/glyf"
	"seehuhn.de/go/sfnt/glyph"
	"seehuhn.de/go/sfnt/head"
	"seehuhn.de/go/sfnt/maxp"
	"seehuhn.de/go/sfnt/os2"
	"seehuhn.de/go/sfnt/zzverif/tape"
)

// GoFontNames lists the corpus fonts.
var GoFontNames = []string{"goregular", "gobold", "goitalic", "gobolditalic", "gomedium", "gomediumitalic",
	"gomono", "gomonobold", "gomonoitalic", "gomonobolditalic", "gosmallcaps", "gosmallcapsitalic"}

// GoFontData returns the bytes of corpus font i.
func GoFontData(i int) []byte {
	switch i % 12 {
	case 0:
		return goregular.TTF
	case 1:
		return gobold.TTF
	case 2:
		return goitalic.TTF
	case 3:
		return gobolditalic.TTF
	case 4:
		return gomedium.TTF
	case 5:
		return gomediumitalic.TTF
	case 6:
		return gomono.TTF
	case 7:
		return gomonobold.TTF
	case 8:
		return gomonoitalic.TTF
	case 9:
		return gomonobolditalic.TTF
	case 10:
		return gosmallcaps.TTF
	default:
		return gosmallcapsitalic.TTF
	}
}

// ReadGoFont decodes corpus font i (a fresh value on every call).
func ReadGoFont(i int) *sfnt.Font {
	f, err := sfnt.Read(bytes.NewReader(GoFontData(i)))
	if err != nil {
		panic(fmt.Sprintf("simgen: corpus font %d unreadable: %v", i, err))
	}
	return f
}

// ---- TrueType ------------------------------------------------------------

type point struct {
	x, y int
	on   bool
}

// encodeSimple encodes contours as a TrueType simple glyph description with
// tape-chosen use of short vectors, "same" flags and flag repeats.
func encodeSimple(t *tape.Tape, contours [][]point, instr []byte) (glyf.SimpleGlyph, funit.Rect16) {
	var buf []byte
	var pts []point
	for _, c := range contours {
		pts = append(pts, c...)
		e := len(pts) - 1
		buf = append(buf, byte(e>>8), byte(e))
	}
	buf = append(buf, byte(len(instr)>>8), byte(len(instr)))
	buf = append(buf, instr...)
	preferShort := !t.Chance(1, 4)
	useRepeat := !t.Chance(1, 3)
	flags := make([]byte, len(pts))
	var xs, ys []byte
	px, py := 0, 0
	var bbox funit.Rect16
	for i, p := range pts {
		var f byte
		if p.on {
			f |= 0x01
		}
		dx, dy := p.x-px, p.y-py
		switch {
		case dx == 0 && preferShort:
			f |= 0x10
		case dx >= -255 && dx <= 255 && preferShort && dx != 0:
			f |= 0x02
			if dx > 0 {
				f |= 0x10
				xs = append(xs, byte(dx))
			} else {
				xs = append(xs, byte(-dx))
			}
		default:
			xs = append(xs, byte(dx>>8), byte(dx))
		}
		switch {
		case dy == 0 && preferShort:
			f |= 0x20
		case dy >= -255 && dy <= 255 && preferShort && dy != 0:
			f |= 0x04
			if dy > 0 {
				f |= 0x20
				ys = append(ys, byte(dy))
			} else {
				ys = append(ys, byte(-dy))
			}
		default:
			ys = append(ys, byte(dy>>8), byte(dy))
		}
		flags[i] = f
		px, py = p.x, p.y
		x, y := funit.Int16(p.x), funit.Int16(p.y)
		if i == 0 {
			bbox = funit.Rect16{LLx: x, LLy: y, URx: x, URy: y}
		} else {
			if x < bbox.LLx {
				bbox.LLx = x
			}
			if x > bbox.URx {
				bbox.URx = x
			}
			if y < bbox.LLy {
				bbox.LLy = y
			}
			if y > bbox.URy {
				bbox.URy = y
			}
		}
	}
	for i := 0; i < len(flags); {
		j := i + 1
		if useRepeat {
			for j < len(flags) && flags[j] == flags[i] && j-i < 256 {
				j++
			}
		}
		if j-i > 1 {
			buf = append(buf, flags[i]|0x08, byte(j-i-1))
		} else {
			buf = append(buf, flags[i])
		}
		i = j
	}
	buf = append(buf, xs...)
	buf = append(buf, ys...)
	return glyf.SimpleGlyph{NumContours: int16(len(contours)), Encoded: buf}, bbox
}

func genContours(t *tape.Tape) [][]point {
	nc := 1 + t.Weighted(6, 3, 1, 1)
	if t.Chance(1, 30) {
		nc = t.Range(5, 12)
	}
	var cc [][]point
	for i := 0; i < nc; i++ {
		np := t.Range(1, 8)
		if t.Chance(1, 20) {
			np = t.Range(9, 60)
		}
		var c []point
		x, y := t.Range(0, 1000)-100, t.Range(0, 1000)-200
		for j := 0; j < np; j++ {
			c = append(c, point{x, y, !t.Chance(1, 3)})
			switch t.Weighted(4, 2, 2, 1) {
			case 0:
				x += t.Range(0, 200) - 100
				y += t.Range(0, 200) - 100
			case 1:
				x += t.Range(0, 60) - 30
			case 2:
				y += t.Range(0, 60) - 30
			default:
				x += t.Range(0, 3000) - 1500
				y += t.Range(0, 3000) - 1500
			}
			if x < -16000 || x > 16000 {
				x = 0
			}
			if y < -16000 || y > 16000 {
				y = 0
			}
		}
		cc = append(cc, c)
	}
	return cc
}

func genComposite(t *tape.Tape, gid int, base []int) glyf.CompositeGlyph {
	n := 1 + t.Weighted(5, 3, 1)
	var comp glyf.CompositeGlyph
	withInstr := t.Chance(1, 5)
	for i := 0; i < n; i++ {
		var fl glyf.ComponentFlag
		var data []byte
		if t.Chance(1, 2) {
			fl |= glyf.FlagArg1And2AreWords
			data = append(data, t.Bytes(4)...)
		} else {
			data = append(data, t.Bytes(2)...)
		}
		if t.Chance(3, 4) {
			fl |= glyf.FlagArgsAreXYValues
		}
		switch t.Weighted(5, 2, 1, 1) {
		case 1:
			fl |= glyf.FlagWeHaveAScale
			data = append(data, t.Bytes(2)...)
		case 2:
			fl |= glyf.FlagWeHaveAnXAndYScale
			data = append(data, t.Bytes(4)...)
		case 3:
			fl |= glyf.FlagWeHaveATwoByTwo
			data = append(data, t.Bytes(8)...)
		}
		if t.Chance(1, 4) {
			fl |= glyf.FlagRoundXYToGrid
		}
		if t.Chance(1, 6) {
			fl |= glyf.FlagUseMyMetrics
		}
		if i < n-1 {
			fl |= glyf.FlagMoreComponents
		}
		if withInstr && i == n-1 {
			fl |= glyf.FlagWeHaveInstructions
		}
		comp.Components = append(comp.Components, glyf.GlyphComponent{
			Flags:      fl,
			GlyphIndex: glyph.ID(base[t.Draw(len(base))]),
			Data:       data,
		})
	}
	if withInstr {
		comp.Instructions = t.Bytes(t.Range(0, 12))
	}
	return comp
}

// GenTrueType builds TrueType outlines with n glyphs.
func GenTrueType(t *tape.Tape, n int) *glyf.Outlines {
	o := &glyf.Outlines{}
	var nonComposite []int
	fixedWidth := -1
	if t.Chance(1, 5) {
		fixedWidth = t.Range(100, 1200)
	}
	for gid := 0; gid < n; gid++ {
		var g *glyf.Glyph
		kind := t.Weighted(7, 2, 2)
		if gid == 0 {
			kind = t.Weighted(3, 1, 0)
		}
		if kind == 2 && len(nonComposite) == 0 {
			kind = 0
		}
		switch kind {
		case 0:
			var instr []byte
			if t.Chance(1, 6) {
				instr = t.Bytes(t.Range(1, 20))
			}
			sg, bbox := encodeSimple(t, genContours(t), instr)
			g = &glyf.Glyph{Rect16: bbox, Data: sg}
			nonComposite = append(nonComposite, gid)
		case 1:
			g = nil
			nonComposite = append(nonComposite, gid)
		case 2:
			comp := genComposite(t, gid, nonComposite)
			x0, y0 := t.Range(0, 400)-200, t.Range(0, 400)-300
			g = &glyf.Glyph{
				Rect16: funit.Rect16{LLx: funit.Int16(x0), LLy: funit.Int16(y0),
					URx: funit.Int16(x0 + t.Range(0, 1500)), URy: funit.Int16(y0 + t.Range(0, 1500))},
				Data: comp,
			}
			if t.Chance(1, 3) {
				// composites of composites
				nonComposite = append(nonComposite, gid)
			}
		}
		o.Glyphs = append(o.Glyphs, g)
		w := fixedWidth
		if w >= 0 && gid > 0 && t.Chance(1, 8) {
			w = 0 // combining marks of a monospaced font
		}
		if w < 0 {
			w = t.Range(0, 2000)
			if t.Chance(1, 8) {
				w = 0
			}
		}
		o.Widths = append(o.Widths, funit.Int16(w))
	}
	if t.Chance(1, 40) {
		// every glyph blank: the glyf table is empty
		for i := range o.Glyphs {
			o.Glyphs[i] = nil
		}
	}
	if t.Chance(2, 3) {
		o.Names = genNames(t, n, t.Weighted(6, 1, 1))
	}
	if t.Chance(1, 2) {
		o.Tables = map[string][]byte{}
		for _, name := range []string{"cvt ", "fpgm", "prep", "gasp"} {
			if t.Chance(1, 2) {
				o.Tables[name] = t.Bytes(t.Range(1, 40))
			}
		}
	}
	if !t.Chance(1, 6) {
		o.Maxp = &maxp.TTFInfo{
			MaxPoints: uint16(t.Range(0, 500)), MaxContours: uint16(t.Range(0, 30)),
			MaxCompositePoints: uint16(t.Range(0, 500)), MaxCompositeContours: uint16(t.Range(0, 30)),
			MaxZones: 2, MaxTwilightPoints: uint16(t.Range(0, 20)), MaxStorage: uint16(t.Range(0, 64)),
			MaxFunctionDefs: uint16(t.Range(0, 64)), MaxInstructionDefs: 0, MaxStackElements: uint16(t.Range(0, 512)),
			MaxSizeOfInstructions: uint16(t.Range(0, 200)), MaxComponentElements: uint16(t.Range(0, 4)),
			MaxComponentDepth: uint16(t.Range(0, 3)),
		}
	}
	return o
}

// name quality: 0 = all unique well-formed, 1 = some missing/duplicate,
// 2 = many duplicates and empties
// macOrder is the beginning of the standard Macintosh glyph order (the names
// a version 1.0 "post" table stands for).
var macOrder = []string{".notdef", ".null", "nonmarkingreturn", "space", "exclam", "quotedbl", "numbersign", "dollar", "percent", "ampersand",
	"quotesingle", "parenleft", "parenright", "asterisk", "plus", "comma", "hyphen", "period", "slash", "zero", "one", "two", "three", "four",
	"five", "six", "seven", "eight", "nine", "colon", "semicolon", "less", "equal", "greater", "question", "at", "A", "B", "C", "D", "E", "F", "G"}

func genNames(t *tape.Tape, n int, quality int) []string {
	names := make([]string, n)
	if quality == 0 && n <= len(macOrder) && t.Chance(1, 6) {
		// the font's glyphs are the first n of the standard Macintosh order
		copy(names, macOrder)
		return names
	}
	base := []string{"A", "B", "C", "a", "b", "c", "f", "i", "l", "space", "one", "two", "comma", "period", "f_i", "f_l", "uni0416", "a.alt", "B.sc", "x", "y", "z", "Aacute", "germandbls"}
	off := t.Draw(len(base))
	for i := range names {
		switch {
		case i == 0:
			names[i] = ".notdef"
			if quality > 0 && t.Chance(1, 4) {
				names[i] = ""
			}
		case quality == 0:
			if i-1 < len(base) {
				names[i] = base[(i-1+off)%len(base)]
			} else {
				names[i] = fmt.Sprintf("glyph%05d", i)
			}
		default:
			switch t.Weighted(5, 2, 2, 1) {
			case 0:
				if i-1 < len(base) {
					names[i] = base[(i-1+off)%len(base)]
				} else {
					names[i] = fmt.Sprintf("glyph%05d", i)
				}
			case 1:
				names[i] = ""
			case 2:
				names[i] = base[t.Draw(len(base))]
			default:
				names[i] = fmt.Sprintf("orn%03d", t.Range(1, 5))
			}
		}
	}
	return names
}

// ---- CFF -------------------------------------------------------------------

func genCFFGlyph(t *tape.Tape, name string, integer bool) *cff.Glyph {
	w := float64(t.Range(0, 1500))
	if !integer && t.Chance(1, 4) {
		w += float64(t.Range(0, 15)) / 16
	}
	g := cff.NewGlyph(name, w)
	if t.Chance(1, 6) {
		return g // blank glyph
	}
	coord := func() float64 {
		v := float64(t.Range(0, 1400) - 200)
		if !integer && t.Chance(1, 5) {
			v += float64(t.Range(0, 255)) / 256
		}
		return v
	}
	ns := 1 + t.Weighted(6, 3, 1)
	for s := 0; s < ns; s++ {
		g.MoveTo(coord(), coord())
		nseg := t.Range(1, 8)
		if t.Chance(1, 25) {
			nseg = t.Range(20, 80)
		}
		for i := 0; i < nseg; i++ {
			switch t.Weighted(4, 3, 2) {
			case 0:
				g.LineTo(coord(), coord())
			case 1:
				g.CurveTo(coord(), coord(), coord(), coord(), coord(), coord())
			default:
				// axis-aligned line from the previous point
				last := g.Cmds[len(g.Cmds)-1].Args
				x, y := last[len(last)-2], last[len(last)-1]
				if t.Chance(1, 2) {
					g.LineTo(coord(), y)
				} else {
					g.LineTo(x, coord())
				}
			}
		}
	}
	many := 0
	if t.Chance(1, 25) {
		many = t.Range(20, 96) // the format allows up to 96 stem hints
	}
	if many > 0 || t.Chance(1, 3) {
		y := float64(t.Range(-100, 600))
		for i := max(t.Range(1, 3), many); i > 0; i-- {
			h := float64(t.Range(10, 120))
			if many > 0 {
				h = float64(t.Range(1, 6))
			}
			g.HStem = append(g.HStem, y, y+h)
			y += h + float64(t.Range(1, 200))
			if many > 0 {
				y -= 190
			}
		}
	}
	if t.Chance(1, 3) {
		x := float64(t.Range(0, 500))
		for i := t.Range(1, 3); i > 0; i-- {
			h := float64(t.Range(10, 120))
			g.VStem = append(g.VStem, x, x+h)
			x += h + float64(t.Range(1, 200))
		}
	}
	return g
}

func genPrivate(t *tape.Tape) *type1.PrivateDict {
	p := &type1.PrivateDict{
		BlueScale: 0.039625,
		BlueShift: 7,
		BlueFuzz:  1,
	}
	if t.Chance(2, 3) {
		p.BlueValues = []funit.Int16{funit.Int16(-t.Range(5, 20)), 0, funit.Int16(t.Range(400, 500)), funit.Int16(t.Range(501, 520)),
			funit.Int16(t.Range(650, 700)), funit.Int16(t.Range(701, 720))}
	}
	if t.Chance(1, 3) {
		p.OtherBlues = []funit.Int16{funit.Int16(-t.Range(220, 240)), funit.Int16(-t.Range(200, 219))}
	}
	if t.Chance(1, 3) {
		p.BlueScale = float64(t.Range(20, 60)) / 1000
	}
	if t.Chance(1, 4) {
		p.BlueShift = int32(t.Range(0, 12))
	}
	if t.Chance(1, 4) {
		p.BlueFuzz = int32(t.Range(0, 3))
	}
	if t.Chance(1, 2) {
		p.StdHW = float64(t.Range(20, 120))
	}
	if t.Chance(1, 2) {
		p.StdVW = float64(t.Range(20, 160))
	}
	p.ForceBold = t.Chance(1, 6)
	return p
}

// GenCFF builds CFF outlines with n glyphs; cidKeyed selects a CID-keyed font.
func GenCFF(t *tape.Tape, n int, cidKeyed bool) *cff.Outlines {
	o := &cff.Outlines{}
	integer := !t.Chance(1, 3)
	var names []string
	if !cidKeyed {
		names = genNames(t, n, 0)
	}
	for gid := 0; gid < n; gid++ {
		name := ""
		if !cidKeyed {
			name = names[gid]
		}
		o.Glyphs = append(o.Glyphs, genCFFGlyph(t, name, integer))
	}
	if !cidKeyed {
		o.Private = []*type1.PrivateDict{genPrivate(t)}
		o.FDSelect = func(glyph.ID) int { return 0 }
		switch t.Weighted(3, 3, 1, 1) {
		case 3:
			// a proper subset of the standard encoding: some glyphs with
			// standard names are left unencoded
			// (the writer wants the encoded glyphs to be 1..k without gaps)
			enc := cff.StandardEncoding(o.Glyphs)
			encoded := map[glyph.ID]bool{}
			for _, g := range enc {
				encoded[g] = true
			}
			k0 := 0 // glyphs 1..k0 all have a standard code
			for k0+1 < n && encoded[glyph.ID(k0+1)] {
				k0++
			}
			k := glyph.ID(0)
			if k0 > 0 {
				k = glyph.ID(t.Range(1, k0))
			}
			for code := range enc {
				if enc[code] > k {
					enc[code] = 0
				}
			}
			o.Encoding = enc
		case 0:
			o.Encoding = cff.StandardEncoding(o.Glyphs)
		case 1:
			// custom encoding: glyphs 1..k get (possibly several) codes
			enc := make([]glyph.ID, 256)
			k := n - 1
			if k > 200 {
				k = 200
			}
			if k > 0 {
				k = t.Range(1, k)
			}
			code := t.Range(0, 40)
			last := 0 // the encoded glyphs must form the contiguous range 1..last
			for g := 1; g <= k && code < 256; g++ {
				enc[code] = glyph.ID(g)
				last = g
				code += 1 + t.Weighted(6, 1)
			}
			if last > 0 && t.Chance(1, 3) {
				// multiply encoded glyph
				for c := 255; c > 200; c-- {
					if enc[c] == 0 {
						enc[c] = glyph.ID(t.Range(1, last))
						break
					}
				}
			}
			o.Encoding = enc
		default:
			o.Encoding = nil
		}
		return o
	}
	nfd := 1 + t.Weighted(3, 3, 1, 1)
	for i := 0; i < nfd; i++ {
		o.Private = append(o.Private, genPrivate(t))
		m := matrix.Identity
		if t.Chance(1, 3) {
			m = matrix.Matrix{float64(t.Range(1, 4)) / 2, 0, 0, float64(t.Range(1, 4)) / 2, 0, 0}
		}
		o.FontMatrices = append(o.FontMatrices, m)
	}
	sel := make([]int, n)
	mode := t.Weighted(2, 2, 1)
	run := 0
	cur := 0
	for i := range sel {
		switch mode {
		case 0:
			sel[i] = t.Draw(nfd)
		case 1:
			if run == 0 {
				run = t.Range(1, 20)
				cur = t.Draw(nfd)
			}
			run--
			sel[i] = cur
		}
	}
	o.FDSelect = func(gid glyph.ID) int { return sel[gid] }
	o.ROS = &cid.SystemInfo{Registry: "Adobe", Ordering: []string{"Identity", "Japan1", "Test"}[t.Draw(3)], Supplement: int32(t.Range(0, 6))}
	o.GIDToCID = make([]cid.CID, n)
	c := 0
	ident := t.Chance(1, 3)
	for i := 1; i < n; i++ {
		if ident {
			c = i
		} else {
			c += 1 + t.Weighted(5, 2, 1)*t.Range(1, 30)
		}
		o.GIDToCID[i] = cid.CID(c)
	}
	return o
}

// ---- whole fonts ----------------------------------------------------------------

// Kind selects the outline flavour of a generated font.
type Kind int

// Outline flavours.
const (
	KindTrueType Kind = iota
	KindCFF
	KindCID
)

func (k Kind) String() string { return [...]string{"truetype", "cff", "cff-cid"}[k] }

var families = []string{"Test", "Sim Sans", "Verif Serif", "Déjà Vu", "X", "Font-With-Dash", "Name (paren) 50%"}

// GenMeta fills the font-level fields of f from the tape.
func GenMeta(t *tape.Tape, f *sfnt.Font) {
	f.FamilyName = families[t.Draw(len(families))]
	f.Width = os2.Width(t.Range(1, 9))
	if t.Chance(1, 2) {
		f.Width = os2.WidthNormal
	}
	f.Weight = os2.Weight([]int{400, 700, 100, 250, 300, 500, 600, 800, 900, 1, 1000}[t.Draw(11)])
	f.IsBold = t.Chance(1, 4)
	f.IsItalic = false
	f.IsSerif = t.Chance(1, 3)
	if !f.IsSerif {
		f.IsScript = t.Chance(1, 5)
	}
	if t.Chance(1, 3) {
		f.ItalicAngle = -float64(t.Range(1, 40)) / 2
		f.IsItalic = true
		f.IsOblique = t.Chance(1, 3)
	}
	f.IsRegular = !f.IsBold && !f.IsItalic && t.Chance(2, 3)
	f.CodePageRange = os2.CodePageRange(t.Raw() & 0xFFFF_0000_03FF_81FF)
	if t.Chance(1, 2) {
		f.CodePageRange = 1 << os2.CP1252
	}
	f.Version = head.Version(uint32(t.Range(0, 9))<<16 | uint32(t.Range(0, 999))*65536/1000)
	f.Version = f.Version.Round()
	switch t.Weighted(6, 2, 2) {
	case 0:
		f.CreationTime = time.Unix(int64(t.Range(0, 2_000_000_000)), 0).UTC()
		f.ModificationTime = f.CreationTime.Add(time.Duration(t.Range(0, 100_000_000)) * time.Second)
	case 1:
		f.CreationTime = time.Unix(int64(t.Range(0, 2_000_000_000)), 0).UTC()
	case 2:
		f.ModificationTime = time.Unix(int64(t.Range(0, 2_000_000_000)), 0).UTC()
	}
	if t.Chance(1, 2) {
		f.Description = "generated by the simulator"
		f.SampleText = "Hamburgefonts żółć"
		if t.Chance(1, 4) {
			// characters beyond the Basic Multilingual Plane (UTF-16
			// surrogate pairs in the name table)
			f.SampleText = "Hamburgefonts \U0001F600 \U00020BB7"
			f.Description = "generated \U0001D11E by the simulator"
		}
	}
	if t.Chance(1, 2) {
		f.Copyright = "(c) 2026 nobody"
		f.Trademark = "no trademark"
		if t.Chance(1, 6) {
			f.Copyright = "\u00a9 2026 \U00010348 nobody"
		}
	}
	if t.Chance(1, 3) {
		f.License = "free"
		f.LicenseURL = "https://example.com/licence"
	}
	f.PermUse = os2.Permissions(t.Draw(4))
	upm := []int{1000, 2048, 1024, 16, 16384, 1234}[t.Weighted(5, 4, 1, 1, 1, 1)]
	f.UnitsPerEm = uint16(upm)
	q := 1 / float64(upm)
	f.FontMatrix = matrix.Matrix{q, 0, 0, q, 0, 0}
	f.Ascent = funit.Int16(t.Range(0, upm))
	f.Descent = -funit.Int16(t.Range(0, upm/2))
	f.LineGap = funit.Int16(t.Range(0, upm/4))
	f.CapHeight = funit.Int16(t.Range(0, upm))
	f.XHeight = funit.Int16(t.Range(0, upm))
	f.UnderlinePosition = funit.Float64(-t.Range(0, 200))
	f.UnderlineThickness = funit.Float64(t.Range(0, 100))
}

// GenCMap installs a character map for numGlyphs glyphs; it returns the map
// that was installed (nil if the font gets no cmap).
func GenCMap(t *tape.Tape, f *sfnt.Font) map[rune]glyph.ID {
	return GenCMapMode(t, f, t.Weighted(6, 2, 1))
}

// GenCMapMode is GenCMap with the kind of character map given: 0 = format 4,
// 1 = format 12 (with a character beyond U+FFFF), 2 = none.
func GenCMapMode(t *tape.Tape, f *sfnt.Font, mode int) map[rune]glyph.ID {
	n := f.NumGlyphs()
	if mode == 2 {
		return nil
	}
	m := map[rune]glyph.ID{}
	code := rune([]int{0x20, 0x41, 0x61, 0x400, 0x0}[t.Draw(5)])
	for gid := 1; gid < n; gid++ {
		if t.Chance(1, 6) {
			continue
		}
		switch t.Weighted(8, 2, 1) {
		case 0:
			code++
		case 1:
			code += rune(t.Range(2, 40))
		default:
			code += rune(t.Range(100, 3000))
		}
		if mode == 0 && code >= 0xFFFF {
			break
		}
		if code >= 0xD800 && code < 0xE000 {
			code = 0xE000
		}
		m[code] = glyph.ID(gid)
		if t.Chance(1, 10) {
			code++
			m[code] = glyph.ID(gid) // second code for the same glyph
		}
	}
	if t.Chance(1, 5) && n > 1 {
		// U+0000 is a character like any other (Go Regular maps it), but it
		// is also the zero value of every rune-keyed cache or table
		m[0] = glyph.ID(1 + t.Draw(n-1))
	}
	if t.Chance(1, 2) && n > 40 {
		// make sure some common letters are mapped
		for i, r := range "HxfilAB " {
			m[r] = glyph.ID(1 + (i*7)%(n-1))
		}
	}
	if mode == 1 {
		m[0x1F600+rune(t.Range(0, 50))] = glyph.ID(t.Range(0, n-1))
		c := cmap.Format12{}
		for r, g := range m {
			c[uint32(r)] = g
		}
		if len(c) == 0 {
			return nil
		}
		f.InstallCMap(c)
		return m
	}
	c := cmap.Format4{}
	for r, g := range m {
		c[uint16(r)] = g
	}
	if len(c) == 0 {
		return nil
	}
	f.InstallCMap(c)
	return m
}

// GenFont builds a complete font value.  size 0 = small (1..40 glyphs),
// 1 = medium (..300), 2 = large (..3000).
func GenFont(t *tape.Tape, kind Kind, size int) *sfnt.Font {
	var n int
	switch size {
	case 0:
		n = t.Range(1, 40)
	case 1:
		n = t.Range(1, 300)
	default:
		n = t.Range(300, 3000)
	}
	f := &sfnt.Font{}
	switch kind {
	case KindTrueType:
		f.Outlines = GenTrueType(t, n)
	case KindCFF:
		f.Outlines = GenCFF(t, n, false)
	case KindCID:
		f.Outlines = GenCFF(t, n, true)
	}
	GenMeta(t, f)
	GenCMap(t, f)
	return f
}

// ToCFF converts a TrueType font (simple glyphs only are converted; others
// become blank) to a CFF font carrying the same metadata.
func ToCFF(src *sfnt.Font, cidKeyed bool) *sfnt.Font {
	orig := src.Outlines.(*glyf.Outlines)
	o := &cff.Outlines{}
	for gid, og := range orig.Glyphs {
		name := src.GlyphName(glyph.ID(gid))
		if name == "" {
			name = fmt.Sprintf("g%05d", gid)
		}
		if cidKeyed {
			name = ""
		}
		g := cff.NewGlyph(name, src.GlyphWidth(glyph.ID(gid)))
		o.Glyphs = append(o.Glyphs, g)
		if og == nil {
			continue
		}
		sg, ok := og.Data.(glyf.SimpleGlyph)
		if !ok {
			continue
		}
		info, err := sg.Decode()
		if err != nil {
			continue
		}
		for _, cc := range info.Contours {
			var ext []glyf.Point
			var prev glyf.Point
			on := true
			for _, cur := range cc {
				if !on && !cur.OnCurve {
					ext = append(ext, glyf.Point{X: (cur.X + prev.X) / 2, Y: (cur.Y + prev.Y) / 2, OnCurve: true})
				}
				ext = append(ext, cur)
				prev = cur
				on = cur.OnCurve
			}
			n := len(ext)
			offs := -1
			for i := range ext {
				if ext[i].OnCurve {
					offs = i
					break
				}
			}
			if offs < 0 || n < 2 {
				continue
			}
			g.MoveTo(float64(ext[offs].X), float64(ext[offs].Y))
			for i := 0; i < n; {
				i0 := (i + offs) % n
				i1 := (i0 + 1) % n
				if ext[i1].OnCurve {
					if i == n-1 {
						break
					}
					g.LineTo(float64(ext[i1].X), float64(ext[i1].Y))
					i++
				} else {
					i2 := (i1 + 1) % n
					g.CurveTo(
						float64(ext[i0].X)/3+float64(ext[i1].X)*2/3, float64(ext[i0].Y)/3+float64(ext[i1].Y)*2/3,
						float64(ext[i1].X)*2/3+float64(ext[i2].X)/3, float64(ext[i1].Y)*2/3+float64(ext[i2].Y)/3,
						float64(ext[i2].X), float64(ext[i2].Y))
					i += 2
				}
			}
		}
	}
	// glyph names must be unique for a simple font
	if !cidKeyed {
		seen := map[string]bool{}
		for gid, g := range o.Glyphs {
			if seen[g.Name] {
				g.Name = fmt.Sprintf("%s.dup%d", g.Name, gid)
			}
			seen[g.Name] = true
		}
		o.Private = []*type1.PrivateDict{{BlueValues: []funit.Int16{-20, 0, 1400, 1420}, BlueScale: 0.039625, BlueShift: 7, BlueFuzz: 1}}
		o.FDSelect = func(glyph.ID) int { return 0 }
		o.Encoding = cff.StandardEncoding(o.Glyphs)
	} else {
		o.Private = []*type1.PrivateDict{
			{BlueValues: []funit.Int16{-20, 0, 1400, 1420}, BlueScale: 0.039625, BlueShift: 7, BlueFuzz: 1},
			{BlueScale: 0.039625, BlueShift: 7, BlueFuzz: 1, StdVW: 80},
		}
		o.FontMatrices = []matrix.Matrix{matrix.Identity, matrix.Identity}
		n := len(o.Glyphs)
		o.FDSelect = func(gid glyph.ID) int {
			if int(gid) < n/2 {
				return 0
			}
			return 1
		}
		o.ROS = &cid.SystemInfo{Registry: "Adobe", Ordering: "Identity", Supplement: 0}
		o.GIDToCID = make([]cid.CID, n)
		for i := range o.GIDToCID {
			o.GIDToCID[i] = cid.CID(i)
		}
	}
	res := src.Clone()
	res.Outlines = o
	return res
}

// RoundTo16 rounds x to a multiple of 1/65536.
func RoundTo16(x float64) float64 { return math.Round(x*65536) / 65536 }

// GenHugeFont builds a TrueType font with 55 300..65 535 glyphs (the upper
// end of the glyph-id range, beyond the UTF-16 surrogate values 0xD800..0xDFFF
// and up to 0xFFFE): the first glyphs are generated as usual, the rest are
// blank with patterned widths, so that the tape stays short.  The character
// map refers to a few dozen glyphs spread over the whole range.
func GenHugeFont(t *tape.Tape) *sfnt.Font {
	n := t.Range(55300, 65535)
	if t.Chance(1, 3) {
		n = 65535
	}
	o := GenTrueType(t, t.Range(2, 12))
	o.Names = nil
	step := t.Range(1, 13)
	for gid := len(o.Glyphs); gid < n; gid++ {
		o.Glyphs = append(o.Glyphs, nil)
		o.Widths = append(o.Widths, funit.Int16((gid*step)%1500))
	}
	f := &sfnt.Font{Outlines: o}
	GenMeta(t, f)
	if t.Chance(5, 6) {
		c := cmap.Format4{}
		for i := 0; i < 40; i++ {
			gid := glyph.ID(1 + t.Draw(n-1))
			if t.Chance(1, 2) {
				gid = glyph.ID(0xD7F0 + t.Draw(0x820)) // around the surrogate range
				if int(gid) >= n {
					gid = glyph.ID(n - 1)
				}
			}
			c[uint16(0x41+i)] = gid
		}
		f.InstallCMap(c)
	}
	return f
}

// HighGlyphs returns glyph ids near the values where 16-bit quantities get
// reinterpreted (all below n); half of the time only the UTF-16 surrogate
// values, otherwise also the sign bit and the top of the range.
func HighGlyphs(t *tape.Tape, n int) []glyph.ID {
	cand := []int{0xD800, 0xD801, 0xDBFF, 0xDC00, 0xDFFF}
	if t.Chance(1, 2) {
		cand = append(cand, 0xD7FF, 0xE000, 0x8000, 0x7FFF, 0xFFFE, 0xFFFD, 0xFEFF, n-1)
	}
	var res []glyph.ID
	for _, g := range cand {
		if g < n {
			res = append(res, glyph.ID(g))
		}
	}
	return res
}

// LocaEdges are sizes of the "glyf" table around the largest offset the
// short "loca" format can express (0xFFFF words = 0x1FFFE bytes).
var LocaEdges = []int{0x1FFFC, 0x1FFFE, 0x20000, 0x20002, 0xFFFE, 0x10000}

// PadGlyfTo appends simple glyphs carrying nothing but instructions to o until
// the encoded "glyf" table has exactly target bytes (a writer has to choose the
// "loca" format from that size).  It reports whether the size was reached.
func PadGlyfTo(t *tape.Tape, o *glyf.Outlines, target int) bool {
	tri := [][]point{{{0, 0, true}, {50, 100, true}, {100, 0, true}}}
	base := func() int {
		sg, _ := encodeSimple(t, tri, nil)
		return len((glyf.Glyphs{&glyf.Glyph{Data: sg}}).Encode().GlyfData)
	}()
	for {
		have := len(o.Glyphs.Encode().GlyfData)
		need := target - have
		if need == 0 {
			return true
		}
		if need < base+2 || len(o.Glyphs) >= 65000 {
			return false
		}
		l := need - base
		if l > 60000 {
			l = 60000
			if need-base-l < base+2 {
				l -= 2 * base
			}
		}
		instr := make([]byte, l)
		for i := range instr {
			instr[i] = byte(i * 7)
		}
		sg, bbox := encodeSimple(t, tri, instr)
		o.Glyphs = append(o.Glyphs, &glyf.Glyph{Rect16: bbox, Data: sg})
		o.Widths = append(o.Widths, 500)
		if o.Names != nil {
			o.Names = append(o.Names, fmt.Sprintf("pad%d", len(o.Glyphs)))
		}
	}
}
