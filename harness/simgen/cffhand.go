package simgen

import "seehuhn.de/go/sfnt/zzverif/tape"

// HandCFF assembles a small CFF font *with subroutines* by hand.  The
// library's own writer never emits subroutines, so artefacts it wrote do not
// exercise callsubr/callgsubr, the subroutine bias or the call-depth limit;
// this artefact does: global and local subroutines in short chains, some
// ending in a tail call to the next subroutine, some in return.
func HandCFF(t *tape.Tape) []byte {
	index := func(items [][]byte) []byte {
		n := len(items)
		out := []byte{byte(n >> 8), byte(n)}
		if n == 0 {
			return out
		}
		out = append(out, 2) // offSize
		off := 1
		out = append(out, byte(off>>8), byte(off))
		for _, it := range items {
			off += len(it)
			out = append(out, byte(off>>8), byte(off))
		}
		for _, it := range items {
			out = append(out, it...)
		}
		return out
	}
	num := func(v int) byte { return byte(v + 139) } // -107..107
	int5 := func(v int) []byte { return []byte{29, byte(v >> 24), byte(v >> 16), byte(v >> 8), byte(v)} }

	nG := 4 * t.Range(1, 5)
	nL := 4 * t.Range(1, 5)
	mkSubrs := func(n int, callOp byte) [][]byte {
		var subrs [][]byte
		for i := 0; i < n; i++ {
			s := []byte{num(t.Range(0, 60) - 30), num(t.Range(0, 60) - 30), 5} // dx dy rlineto
			if t.Chance(1, 3) {
				s = append(s, num(t.Range(0, 40)-20), 6) // dx hlineto
			}
			if i%4 == 3 || t.Chance(1, 5) {
				s = append(s, 11) // return
			} else {
				// tail call of the next subroutine of the chain (bias 107)
				s = append(s, num(i+1-107), callOp)
				if t.Chance(1, 2) {
					s = append(s, 11)
				}
			}
			subrs = append(subrs, s)
		}
		return subrs
	}
	gsubrs := mkSubrs(nG, 29)
	lsubrs := mkSubrs(nL, 10)

	nGlyphs := t.Range(2, 8)
	var cs [][]byte
	cs = append(cs, []byte{14}) // .notdef: endchar
	for g := 1; g < nGlyphs; g++ {
		c := []byte{num(t.Range(0, 100)), num(t.Range(0, 100)), 21} // x y rmoveto
		for k := t.Range(1, 3); k > 0; k-- {
			if t.Chance(1, 2) {
				c = append(c, num(4*t.Draw(nG/4)-107), 29)
			} else {
				c = append(c, num(4*t.Draw(nL/4)-107), 10)
			}
		}
		c = append(c, 14)
		cs = append(cs, c)
	}

	header := []byte{1, 0, 4, 2}
	nameIdx := index([][]byte{[]byte("HandMade")})
	stringIdx := index(nil)
	gsubrIdx := index(gsubrs)
	csIdx := index(cs)
	lsubrIdx := index(lsubrs)
	private := append(int5(6), 19) // Subrs at offset 6 from the start of the Private DICT

	topLen := 6 + 11
	topIdxLen := 2 + 1 + 2*2 + topLen
	csOff := len(header) + len(nameIdx) + topIdxLen + len(stringIdx) + len(gsubrIdx)
	privOff := csOff + len(csIdx)
	top := append(int5(csOff), 17)
	top = append(top, int5(len(private))...)
	top = append(top, int5(privOff)...)
	top = append(top, 18)
	topIdx := index([][]byte{top})

	var out []byte
	out = append(out, header...)
	out = append(out, nameIdx...)
	out = append(out, topIdx...)
	out = append(out, stringIdx...)
	out = append(out, gsubrIdx...)
	out = append(out, csIdx...)
	out = append(out, private...)
	out = append(out, lsubrIdx...)
	return out
}
