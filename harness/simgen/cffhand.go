package simgen

import "seehuhn.de/go/sfnt/zzverif/tape"

// HandCFF assembles a small CFF font *with subroutines* by hand.  The
// library's own writer never emits subroutines, so artefacts it wrote do not
// exercise callsubr/callgsubr, the subroutine bias or the call-depth limit;
// this artefact does: global and local subroutines in short chains, some
// ending in a tail call to the next subroutine, some in return.
func HandCFF(t *tape.Tape) []byte { return HandCFFExtreme(t, 0) }

// HandCFFExtreme is HandCFF with, for extreme > 0, a first glyph whose
// charstring computes an operand of magnitude 2^63 or an infinity with the
// arithmetic operators (1 followed by 64 times "dup add", optionally "neg")
// and hands it to a stack operator as count or index: 1 roll with a huge
// negative count, 2 roll with a huge positive count, 3 index with a huge
// negative index, 4 a division by zero feeding roll.  Such a font may be
// refused; the decoder must not fall over it.
func HandCFFExtreme(t *tape.Tape, extreme int) []byte {
	index := func(items [][]byte) []byte {
		n := len(items)
		out := []byte{byte(n >> 8), byte(n)}
		if n == 0 {
			return out
		}
		out = append(out, 2) // offSize
		off := 1
		out = append(out, byte(off>>8), byte(off))
		for _, it := range items {
			off += len(it)
			out = append(out, byte(off>>8), byte(off))
		}
		for _, it := range items {
			out = append(out, it...)
		}
		return out
	}
	num := func(v int) byte { return byte(v + 139) } // -107..107
	int5 := func(v int) []byte { return []byte{29, byte(v >> 24), byte(v >> 16), byte(v >> 8), byte(v)} }

	nG := 4 * t.Range(1, 5)
	nL := 4 * t.Range(1, 5)
	mkSubrs := func(n int, callOp byte) [][]byte {
		var subrs [][]byte
		for i := 0; i < n; i++ {
			s := []byte{num(t.Range(0, 60) - 30), num(t.Range(0, 60) - 30), 5} // dx dy rlineto
			if t.Chance(1, 3) {
				s = append(s, num(t.Range(0, 40)-20), 6) // dx hlineto
			}
			if i%4 == 3 || t.Chance(1, 5) {
				s = append(s, 11) // return
			} else {
				// tail call of the next subroutine of the chain (bias 107)
				s = append(s, num(i+1-107), callOp)
				if t.Chance(1, 2) {
					s = append(s, 11)
				}
			}
			subrs = append(subrs, s)
		}
		return subrs
	}
	gsubrs := mkSubrs(nG, 29)
	lsubrs := mkSubrs(nL, 10)

	nGlyphs := t.Range(2, 8)
	var cs [][]byte
	cs = append(cs, []byte{14}) // .notdef: endchar
	for g := 1; g < nGlyphs; g++ {
		c := []byte{num(t.Range(0, 100)), num(t.Range(0, 100)), 21} // x y rmoveto
		if extreme > 0 && g == 1 {
			huge := []byte{num(1)}
			for i := 0; i < 64; i++ {
				huge = append(huge, 12, 27, 12, 10) // dup add
			}
			c = []byte{num(t.Range(0, 100)), num(t.Range(0, 100)), num(t.Range(0, 100))}
			switch extreme {
			case 1:
				c = append(c, num(3))
				c = append(c, huge...)
				c = append(c, 12, 14, 12, 30) // neg roll
			case 2:
				c = append(c, num(3))
				c = append(c, huge...)
				c = append(c, 12, 30) // roll
			case 3:
				c = append(c, huge...)
				c = append(c, 12, 14, 12, 29) // neg index
				c = append(c, 12, 18)         // drop
			default:
				c = append(c, num(3), num(1), num(0), 12, 12, 12, 30) // 1 0 div roll
			}
			c = append(c, 12, 18, 21) // drop; x y rmoveto
		}
		for k := t.Range(1, 3); k > 0; k-- {
			if t.Chance(1, 2) {
				c = append(c, num(4*t.Draw(nG/4)-107), 29)
			} else {
				c = append(c, num(4*t.Draw(nL/4)-107), 10)
			}
		}
		c = append(c, 14)
		cs = append(cs, c)
	}

	header := []byte{1, 0, 4, 2}
	nameIdx := index([][]byte{[]byte("HandMade")})
	stringIdx := index(nil)
	gsubrIdx := index(gsubrs)
	csIdx := index(cs)
	lsubrIdx := index(lsubrs)
	private := append(int5(6), 19) // Subrs at offset 6 from the start of the Private DICT

	topLen := 6 + 11
	topIdxLen := 2 + 1 + 2*2 + topLen
	csOff := len(header) + len(nameIdx) + topIdxLen + len(stringIdx) + len(gsubrIdx)
	privOff := csOff + len(csIdx)
	top := append(int5(csOff), 17)
	top = append(top, int5(len(private))...)
	top = append(top, int5(privOff)...)
	top = append(top, 18)
	topIdx := index([][]byte{top})

	var out []byte
	out = append(out, header...)
	out = append(out, nameIdx...)
	out = append(out, topIdx...)
	out = append(out, stringIdx...)
	out = append(out, gsubrIdx...)
	out = append(out, csIdx...)
	out = append(out, private...)
	out = append(out, lsubrIdx...)
	return out
}

// HandCID assembles a small CID-keyed CFF font by hand: ROS, CIDCount,
// charset, FDSelect (format 0 or 3), FDArray with 1..3 font dictionaries and
// their private dictionaries.  With reals set, a tape-chosen subset of the
// integer operands of the Top DICT is written as real numbers (operator 30),
// which the DICT encoding permits for any operand but no writer of the
// library does; a reader may refuse such a font, it must not fall over it.
func HandCID(t *tape.Tape, reals bool) []byte {
	index := func(items [][]byte) []byte {
		n := len(items)
		out := []byte{byte(n >> 8), byte(n)}
		if n == 0 {
			return out
		}
		out = append(out, 2)
		off := 1
		out = append(out, byte(off>>8), byte(off))
		for _, it := range items {
			off += len(it)
			out = append(out, byte(off>>8), byte(off))
		}
		for _, it := range items {
			out = append(out, it...)
		}
		return out
	}
	num := func(v int) byte { return byte(v + 139) }
	int5 := func(v int) []byte { return []byte{29, byte(v >> 24), byte(v >> 16), byte(v >> 8), byte(v)} }
	real := func(v int) []byte {
		digits := []byte(itoa(v))
		var nib []byte
		for _, d := range digits {
			nib = append(nib, d-'0')
		}
		nib = append(nib, 0xf)
		if len(nib)%2 == 1 {
			nib = append(nib, 0xf)
		}
		out := []byte{30}
		for i := 0; i < len(nib); i += 2 {
			out = append(out, nib[i]<<4|nib[i+1])
		}
		return out
	}
	// which of the seven Top DICT integer operands are written as reals
	// (0 Supplement, 1 CIDCount, 2 charset, 3 CharStrings, 4 FDArray, 5 FDSelect)
	asReal := make([]bool, 7)
	if reals {
		switch t.Draw(3) {
		case 0:
			asReal[0] = true
		case 1:
			asReal[t.Draw(2)] = true
			asReal[t.Draw(2)] = true
		default:
			for i := range asReal {
				asReal[i] = t.Chance(1, 3)
			}
			asReal[t.Draw(6)] = true
		}
	}
	enc := func(k, v int) []byte {
		if asReal[k] {
			return real(v)
		}
		return int5(v)
	}

	nGlyphs := t.Range(2, 14)
	nFD := t.Range(1, 3)
	var cs [][]byte
	cs = append(cs, []byte{14})
	for g := 1; g < nGlyphs; g++ {
		c := []byte{num(t.Range(0, 100)), num(t.Range(0, 100)), 21, num(t.Range(0, 60) - 30), num(t.Range(0, 60) - 30), 5, 14}
		cs = append(cs, c)
	}
	sel := make([]int, nGlyphs)
	fd, left := 0, 0
	for g := range sel {
		if left == 0 {
			left = t.Range(1, 5)
			fd = t.Draw(nFD)
		}
		left--
		sel[g] = fd
	}
	var fdsel []byte
	if t.Chance(1, 2) {
		fdsel = FDSelect3(func(g int) int { return sel[g] }, nGlyphs)
	} else {
		fdsel = []byte{0}
		for _, s := range sel {
			fdsel = append(fdsel, byte(s))
		}
	}
	charset := []byte{0}
	cidv := 0
	for g := 1; g < nGlyphs; g++ {
		cidv += t.Range(1, 9)
		charset = append(charset, byte(cidv>>8), byte(cidv))
	}
	supp := t.Range(0, 6)

	header := []byte{1, 0, 4, 2}
	nameIdx := index([][]byte{[]byte("HandCID")})
	stringIdx := index([][]byte{[]byte("Adobe"), []byte("Identity")})
	gsubrIdx := index(nil)
	csIdx := index(cs)
	var privates [][]byte
	for i := 0; i < nFD; i++ {
		privates = append(privates, []byte{num(t.Range(0, 100)), 20, num(t.Range(0, 100)), 21}) // defaultWidthX, nominalWidthX
	}

	// positions depend on the length of the Top DICT, which depends on the
	// encodings of the positions: iterate to the fixed point
	charsetOff, fdselOff, csOff, fdaOff := 0, 0, 0, 0
	var top, fdaIdx []byte
	for iter := 0; iter < 8; iter++ {
		top = nil
		top = append(top, int5(391)...)
		top = append(top, int5(392)...)
		top = append(top, enc(0, supp)...)
		top = append(top, 12, 30)
		top = append(top, enc(1, cidv+1)...)
		top = append(top, 12, 34)
		top = append(top, enc(2, charsetOff)...)
		top = append(top, 15)
		top = append(top, enc(3, csOff)...)
		top = append(top, 17)
		top = append(top, enc(4, fdaOff)...)
		top = append(top, 12, 36)
		top = append(top, enc(5, fdselOff)...)
		top = append(top, 12, 37)
		topIdxLen := 2 + 1 + 2*2 + len(top)
		pos := len(header) + len(nameIdx) + topIdxLen + len(stringIdx) + len(gsubrIdx)
		nCharset := pos
		pos += len(charset)
		nFdsel := pos
		pos += len(fdsel)
		nCs := pos
		pos += len(csIdx)
		nFda := pos
		// font dictionaries: Private size and offset, always 5-byte integers
		fdaLen := 2 + 1 + 2*(nFD+1) + nFD*11
		privPos := nFda + fdaLen
		var fds [][]byte
		for i := 0; i < nFD; i++ {
			d := append(int5(len(privates[i])), int5(privPos)...)
			d = append(d, 18)
			fds = append(fds, d)
			privPos += len(privates[i])
		}
		fdaIdx = index(fds)
		if nCharset == charsetOff && nFdsel == fdselOff && nCs == csOff && nFda == fdaOff {
			break
		}
		charsetOff, fdselOff, csOff, fdaOff = nCharset, nFdsel, nCs, nFda
	}
	_ = asReal[6]
	var out []byte
	out = append(out, header...)
	out = append(out, nameIdx...)
	out = append(out, index([][]byte{top})...)
	out = append(out, stringIdx...)
	out = append(out, gsubrIdx...)
	out = append(out, charset...)
	out = append(out, fdsel...)
	out = append(out, csIdx...)
	out = append(out, fdaIdx...)
	for _, p := range privates {
		out = append(out, p...)
	}
	return out
}

func itoa(v int) string {
	if v == 0 {
		return "0"
	}
	var b []byte
	for v > 0 {
		b = append([]byte{byte('0' + v%10)}, b...)
		v /= 10
	}
	return string(b)
}
