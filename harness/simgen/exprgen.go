package simgen

import (
	"sort"

	"seehuhn.de/go/postscript/funit"

	"seehuhn.de/go/sfnt/glyph"
	"seehuhn.de/go/sfnt/opentype/anchor"
	"seehuhn.de/go/sfnt/opentype/classdef"
	"seehuhn.de/go/sfnt/opentype/coverage"
	"seehuhn.de/go/sfnt/opentype/gtab"
	"seehuhn.de/go/sfnt/opentype/markarray"
	"seehuhn.de/go/sfnt/zzverif/tape"
)

// ExprGen generates lookup lists which the lookup description language of
// opentype/gtab/builder has syntax for.  The domain is the one the grammar in
// parser.go defines (DESIGN.md 9.8 lists the rules and where each comes from):
//
//   - GSUB 1-4: one subtable per lookup (the grammar has no "||" for them);
//     every source glyph at most once; at least one rule; replacement
//     sequences and ligature inputs are not empty where the grammar demands a
//     glyph; alternates are sorted sets
//   - GSUB 5/6 and GPOS 1-4: one to three subtables per lookup
//   - class based contexts: classes 1..k are all non-empty, rules only
//     refer to classes 0..k, at least one rule per subtable
//   - GPOS 2.2: class numbers may have gaps (empty inner classes), the matrix
//     has NumClasses rows / columns
//   - GPOS 4: mark classes are 0..k-1 and all in use; every base record has k
//     anchors
//   - value records carry x/y placement and x advance only; lookup flags are
//     subsets of ignore marks / ligatures / base glyphs
//   - glyph ids lie below N
type ExprGen struct {
	T          *tape.Tape
	N          int
	Hot        []glyph.ID
	NumLookups int
}

// GID returns a glyph id with the generator's distribution.
func (g *ExprGen) GID() glyph.ID { return g.gid() }

func (g *ExprGen) gid() glyph.ID {
	if g.N <= 1 {
		return 0
	}
	if len(g.Hot) > 0 && g.T.Chance(1, 3) {
		h := g.Hot[g.T.Draw(len(g.Hot))]
		if int(h) < g.N {
			return h
		}
	}
	if g.T.Chance(1, 2) && g.N > 12 {
		return glyph.ID(1 + g.T.Draw(11))
	}
	return glyph.ID(g.T.Draw(g.N))
}

// set returns 1..max distinct glyphs in increasing order; a third of the
// sets consist of runs of consecutive glyphs.
func (g *ExprGen) set(max int) []glyph.ID {
	m := map[glyph.ID]bool{}
	if g.T.Chance(1, 3) {
		for r := 1 + g.T.Draw(2); r > 0; r-- {
			start := int(g.gid())
			for i, n := 0, 2+g.T.Draw(4); i < n && start+i < g.N; i++ {
				m[glyph.ID(start+i)] = true
			}
		}
	} else {
		for k := 1 + g.T.Draw(max); k > 0; k-- {
			m[g.gid()] = true
		}
	}
	if len(m) == 0 {
		m[0] = true
	}
	var res []glyph.ID
	for x := range m {
		res = append(res, x)
	}
	sort.Slice(res, func(i, j int) bool { return res[i] < res[j] })
	return res
}

func (g *ExprGen) list(lo, hi int) []glyph.ID {
	n := g.T.Range(lo, hi)
	res := make([]glyph.ID, n)
	for i := range res {
		res[i] = g.gid()
	}
	return res
}

// Flags returns a subset of the three flags the language names.
func (g *ExprGen) Flags() gtab.LookupFlags {
	var f gtab.LookupFlags
	if g.T.Chance(1, 2) {
		return 0
	}
	if g.T.Chance(1, 2) {
		f |= gtab.IgnoreMarks
	}
	if g.T.Chance(1, 2) {
		f |= gtab.IgnoreLigatures
	}
	if g.T.Chance(1, 2) {
		f |= gtab.IgnoreBaseGlyphs
	}
	return f
}

func (g *ExprGen) actions(seqLen int) []gtab.SeqLookup {
	n := g.T.Weighted(2, 5, 3, 1)
	var res []gtab.SeqLookup
	for i := 0; i < n; i++ {
		a := gtab.SeqLookup{}
		if seqLen > 0 {
			a.SequenceIndex = uint16(g.T.Draw(seqLen))
		}
		if g.NumLookups > 0 {
			a.LookupListIndex = gtab.LookupIndex(g.T.Draw(g.NumLookups))
		}
		res = append(res, a)
	}
	return res
}

// classes returns a class definition with classes 1..k, all non-empty.
func (g *ExprGen) classes(k int) classdef.Table {
	c := classdef.Table{}
	for cls := 1; cls <= k; cls++ {
		placed := false
		for try := 0; try < 40 && !placed; try++ {
			for _, x := range g.set(4) {
				if _, used := c[x]; !used {
					c[x] = uint16(cls)
					placed = true
				}
			}
		}
		if !placed {
			// every glyph is taken: fall back to the first free one
			for x := 0; x < g.N; x++ {
				if _, used := c[glyph.ID(x)]; !used {
					c[glyph.ID(x)] = uint16(cls)
					placed = true
					break
				}
			}
		}
		if !placed {
			return c
		}
	}
	return c
}

// numDefined returns the number k such that classes 1..k are all in use.
func numDefined(c classdef.Table) int {
	return c.NumClasses() - 1
}

func (g *ExprGen) classSeq(k, lo, hi int) []uint16 {
	n := g.T.Range(lo, hi)
	r := make([]uint16, n)
	for j := range r {
		r[j] = uint16(g.T.Draw(k + 1))
	}
	return r
}

// Gsub returns one lookup of the given type (1..6).
func (g *ExprGen) Gsub(tp uint16) *gtab.LookupTable {
	t := g.T
	lt := &gtab.LookupTable{Meta: &gtab.LookupMetaInfo{LookupType: tp, LookupFlags: g.Flags()}}
	switch tp {
	case 1:
		if t.Chance(1, 3) {
			gg := g.set(8)
			lo, hi := int(gg[0]), int(gg[len(gg)-1])
			// every target gid+delta must be a glyph of the font
			dMin, dMax := -lo, g.N-1-hi
			d := dMin + t.Draw(dMax-dMin+1)
			lt.Subtables = append(lt.Subtables, &gtab.Gsub1_1{Cov: covSet(gg), Delta: glyph.ID(d)})
			break
		}
		m := map[glyph.ID]glyph.ID{}
		for seg := t.Range(1, 4); seg > 0; seg-- {
			start, n := int(g.gid()), 1
			if t.Chance(1, 2) {
				n = t.Range(2, 6) // runs, written as ranges by Explain
			}
			to := int(g.gid())
			for i := 0; i < n && start+i < g.N && to+i < g.N; i++ {
				if _, ok := m[glyph.ID(start+i)]; !ok {
					m[glyph.ID(start+i)] = glyph.ID(to + i)
				}
			}
		}
		var gg []glyph.ID
		for x := range m {
			gg = append(gg, x)
		}
		sort.Slice(gg, func(i, j int) bool { return gg[i] < gg[j] })
		s := &gtab.Gsub1_2{Cov: covTable(gg)}
		for _, x := range gg {
			s.SubstituteGlyphIDs = append(s.SubstituteGlyphIDs, m[x])
		}
		lt.Subtables = append(lt.Subtables, s)
	case 2:
		gg := g.set(6)
		s := &gtab.Gsub2_1{Cov: covTable(gg)}
		for range gg {
			s.Repl = append(s.Repl, g.list(1, 4))
		}
		lt.Subtables = append(lt.Subtables, s)
	case 3:
		gg := g.set(6)
		s := &gtab.Gsub3_1{Cov: covTable(gg)}
		for range gg {
			s.Alternates = append(s.Alternates, g.set(4))
		}
		lt.Subtables = append(lt.Subtables, s)
	case 4:
		if t.Chance(1, 8) && g.N > 12 {
			// "ligatures" of one glyph each over a run of glyphs (the
			// grammar accepts GSUB4: A -> D)
			n := t.Range(3, 5)
			start, to := t.Draw(g.N-n), t.Draw(g.N-n)
			s := &gtab.Gsub4_1{Cov: coverage.Table{}}
			for i := 0; i < n; i++ {
				s.Cov[glyph.ID(start+i)] = i
				s.Repl = append(s.Repl, []gtab.Ligature{{Out: glyph.ID(to + i)}})
			}
			lt.Subtables = append(lt.Subtables, s)
			break
		}
		gg := g.set(6)
		s := &gtab.Gsub4_1{Cov: covTable(gg)}
		for range gg {
			var ligs []gtab.Ligature
			for i := t.Range(1, 3); i > 0; i-- {
				ligs = append(ligs, gtab.Ligature{In: g.list(0, 3), Out: g.gid()})
			}
			s.Repl = append(s.Repl, ligs)
		}
		lt.Subtables = append(lt.Subtables, s)
	case 5:
		for k := 1 + t.Weighted(3, 2, 1); k > 0; k-- {
			lt.Subtables = append(lt.Subtables, g.seqContext())
		}
	case 6:
		for k := 1 + t.Weighted(3, 2, 1); k > 0; k-- {
			lt.Subtables = append(lt.Subtables, g.chainedContext())
		}
	default:
		panic("simgen: GSUB type outside the language")
	}
	return lt
}

func (g *ExprGen) seqContext() gtab.Subtable {
	t := g.T
	switch t.Draw(3) {
	case 0:
		gg := g.set(5)
		s := &gtab.SeqContext1{Cov: covTable(gg)}
		for range gg {
			var rules []*gtab.SeqRule
			for i := t.Range(1, 2); i > 0; i-- {
				in := g.list(0, 3)
				rules = append(rules, &gtab.SeqRule{Input: in, Actions: g.actions(len(in) + 1)})
			}
			s.Rules = append(s.Rules, rules)
		}
		return s
	case 1:
		input := g.classes(t.Range(0, 3))
		k := numDefined(input)
		s := &gtab.SeqContext2{Cov: covTable(g.set(6)), Input: input, Rules: make([][]*gtab.ClassSeqRule, k+1)}
		for i := t.Range(1, 4); i > 0; i-- {
			first := t.Draw(k + 1)
			in := g.classSeq(k, 0, 3)
			s.Rules[first] = append(s.Rules[first], &gtab.ClassSeqRule{Input: in, Actions: g.actions(len(in) + 1)})
		}
		return s
	default:
		n := t.Range(1, 4)
		s := &gtab.SeqContext3{}
		for i := 0; i < n; i++ {
			s.Input = append(s.Input, covSet(g.set(5)))
		}
		s.Actions = g.actions(n)
		return s
	}
}

func (g *ExprGen) chainedContext() gtab.Subtable {
	t := g.T
	switch t.Draw(3) {
	case 0:
		gg := g.set(5)
		s := &gtab.ChainedSeqContext1{Cov: covTable(gg)}
		for range gg {
			var rules []*gtab.ChainedSeqRule
			for i := t.Range(1, 2); i > 0; i-- {
				in := g.list(0, 3)
				rules = append(rules, &gtab.ChainedSeqRule{Backtrack: g.list(0, 2), Input: in, Lookahead: g.list(0, 2), Actions: g.actions(len(in) + 1)})
			}
			s.Rules = append(s.Rules, rules)
		}
		return s
	case 1:
		back, input, ahead := g.classes(t.Range(0, 2)), g.classes(t.Range(0, 3)), g.classes(t.Range(0, 2))
		kb, ki, ka := numDefined(back), numDefined(input), numDefined(ahead)
		s := &gtab.ChainedSeqContext2{Cov: covTable(g.set(6)), Backtrack: back, Input: input, Lookahead: ahead,
			Rules: make([][]*gtab.ChainedClassSeqRule, ki+1)}
		for i := t.Range(1, 4); i > 0; i-- {
			first := t.Draw(ki + 1)
			in := g.classSeq(ki, 0, 3)
			s.Rules[first] = append(s.Rules[first], &gtab.ChainedClassSeqRule{
				Backtrack: g.classSeq(kb, 0, 2), Input: in, Lookahead: g.classSeq(ka, 0, 2), Actions: g.actions(len(in) + 1)})
		}
		return s
	default:
		s := &gtab.ChainedSeqContext3{}
		sets := func(lo, hi int) []coverage.Set {
			var r []coverage.Set
			for i := t.Range(lo, hi); i > 0; i-- {
				r = append(r, covSet(g.set(5)))
			}
			return r
		}
		s.Backtrack = sets(0, 2)
		s.Input = sets(1, 3)
		s.Lookahead = sets(0, 2)
		s.Actions = g.actions(len(s.Input))
		return s
	}
}

func (g *ExprGen) value(allowNil bool) *gtab.GposValueRecord {
	t := g.T
	if allowNil && t.Chance(1, 6) {
		return nil
	}
	v := &gtab.GposValueRecord{}
	for try := 0; v.XAdvance == 0 && v.XPlacement == 0 && v.YPlacement == 0; try++ {
		if try == 3 {
			v.XAdvance = 10 // an exhausted tape answers "no" to everything
			break
		}
		if t.Chance(1, 2) {
			v.XAdvance = funit.Int16(t.Range(0, 400) - 200)
		}
		if t.Chance(1, 3) {
			v.XPlacement = funit.Int16(t.Range(0, 200) - 100)
		}
		if t.Chance(1, 3) {
			v.YPlacement = funit.Int16(t.Range(0, 200) - 100)
		}
		if t.Chance(1, 20) {
			v.XAdvance = []funit.Int16{-32768, 32767, 1, -1}[t.Draw(4)]
		}
	}
	return v
}

func (g *ExprGen) pair() *gtab.PairAdjust {
	p := &gtab.PairAdjust{First: g.value(true)}
	if g.T.Chance(1, 3) {
		p.Second = g.value(false)
	}
	return p
}

func (g *ExprGen) anchor() anchor.Table {
	return anchor.Table{X: funit.Int16(g.T.Range(0, 1000) - 200), Y: funit.Int16(g.T.Range(0, 1000) - 200)}
}

// gappy returns a class definition whose class numbers may have gaps.
func (g *ExprGen) gappy() classdef.Table {
	c := classdef.Table{}
	if g.T.Chance(1, 8) {
		return c
	}
	maxCls := g.T.Range(1, 4)
	for _, x := range g.set(8) {
		c[x] = uint16(1 + g.T.Draw(maxCls))
	}
	return c
}

// Gpos returns one lookup of the given type (1..4).
func (g *ExprGen) Gpos(tp uint16) *gtab.LookupTable {
	t := g.T
	lt := &gtab.LookupTable{Meta: &gtab.LookupMetaInfo{LookupType: tp, LookupFlags: g.Flags()}}
	for k := 1 + t.Weighted(3, 2, 1); k > 0; k-- {
		switch tp {
		case 1:
			if t.Chance(1, 2) {
				lt.Subtables = append(lt.Subtables, &gtab.Gpos1_1{Cov: covTable(g.set(6)), Adjust: g.value(false)})
			} else {
				gg := g.set(6)
				s := &gtab.Gpos1_2{Cov: covTable(gg)}
				for range gg {
					s.Adjust = append(s.Adjust, g.value(true))
				}
				lt.Subtables = append(lt.Subtables, s)
			}
		case 2:
			if t.Chance(1, 2) {
				s := gtab.Gpos2_1{}
				for i := t.Range(1, 6); i > 0; i-- {
					s[glyph.Pair{Left: g.gid(), Right: g.gid()}] = g.pair()
				}
				lt.Subtables = append(lt.Subtables, s)
			} else {
				s := &gtab.Gpos2_2{Cov: covSet(g.set(6)), Class1: g.gappy(), Class2: g.gappy()}
				n1, n2 := s.Class1.NumClasses(), s.Class2.NumClasses()
				for i := 0; i < n1; i++ {
					row := make([]*gtab.PairAdjust, n2)
					for j := range row {
						row[j] = g.pair()
					}
					s.Adjust = append(s.Adjust, row)
				}
				lt.Subtables = append(lt.Subtables, s)
			}
		case 3:
			gg := g.set(5)
			s := &gtab.Gpos3_1{Cov: covTable(gg)}
			for range gg {
				s.Records = append(s.Records, gtab.EntryExitRecord{Entry: g.anchor(), Exit: g.anchor()})
			}
			lt.Subtables = append(lt.Subtables, s)
		case 4:
			marks := g.set(5)
			nc := t.Range(1, 3)
			if nc > len(marks) {
				nc = len(marks)
			}
			s := &gtab.Gpos4_1{MarkCov: covTable(marks)}
			for i := range marks {
				cls := t.Draw(nc)
				if i < nc {
					cls = i // every class is in use
				}
				s.MarkArray = append(s.MarkArray, markarray.Record{Class: uint16(cls), Table: g.anchor()})
			}
			bases := g.set(5)
			s.BaseCov = covTable(bases)
			for range bases {
				aa := make([]anchor.Table, nc)
				for j := range aa {
					aa[j] = g.anchor()
				}
				s.BaseArray = append(s.BaseArray, aa)
			}
			lt.Subtables = append(lt.Subtables, s)
		default:
			panic("simgen: GPOS type outside the language")
		}
	}
	return lt
}

// List returns a lookup list of 1..3 lookups, GSUB or GPOS.
func (g *ExprGen) List(gsub bool) gtab.LookupList {
	n := g.T.Range(1, 3)
	g.NumLookups = n
	var ll gtab.LookupList
	for i := 0; i < n; i++ {
		if gsub {
			ll = append(ll, g.Gsub(uint16(g.T.Range(1, 6))))
		} else {
			ll = append(ll, g.Gpos(uint16(g.T.Range(1, 4))))
		}
	}
	return ll
}
