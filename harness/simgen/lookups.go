package simgen

import (
	"sort"

	"golang.org/x/text/language"

	"seehuhn.de/go/postscript/funit"

	"seehuhn.de/go/sfnt"
	"seehuhn.de/go/sfnt/glyph"
	"seehuhn.de/go/sfnt/opentype/anchor"
	"seehuhn.de/go/sfnt/opentype/classdef"
	"seehuhn.de/go/sfnt/opentype/coverage"
	"seehuhn.de/go/sfnt/opentype/gdef"
	"seehuhn.de/go/sfnt/opentype/gtab"
	"seehuhn.de/go/sfnt/opentype/markarray"
	"seehuhn.de/go/sfnt/zzverif/tape"
)

// LookupGen generates lookup tables over the glyphs 0..N-1.
type LookupGen struct {
	T *tape.Tape
	N int // number of glyphs
	// Wild allows shapes a reader can deliver but a careful author would not
	// write: out-of-range lookup and sequence indices, self reference, more
	// actions than the engine's budget, class and mark-set indices beyond the
	// tables they refer to.
	Wild bool
	// NumLookups is the length of the list being generated (for nested
	// action indices).
	NumLookups int
	// MarkSets is the number of mark glyph sets in GDEF.
	MarkSets int
	// MarkMode makes marks, mark filtering sets and mark-related lookup
	// flags frequent: several hot glyphs are marks, GDEF has two or three
	// mark glyph sets with different members, and lookup flags come from a
	// small palette so that different lookups share a flag word while
	// naming different sets.
	MarkMode bool
	// Hot, if set, lists glyphs that are used more often than others.
	Hot []glyph.ID
	// CtxFormat forces the format (1..3) of contextual subtables; 0 = tape.
	CtxFormat int
	// Types, if set, restricts the lookup types Info chooses from.
	Types []uint16
}

func (g *LookupGen) gid() glyph.ID {
	if g.N <= 1 {
		return 0
	}
	if len(g.Hot) > 0 && g.T.Chance(1, 3) {
		return g.Hot[g.T.Draw(len(g.Hot))]
	}
	if g.T.Chance(1, 2) && g.N > 12 {
		return glyph.ID(1 + g.T.Draw(11)) // small hot set so that rules interact
	}
	return glyph.ID(g.T.Draw(g.N))
}

// GlyphSet returns 1..max distinct glyphs in increasing order.
func (g *LookupGen) GlyphSet(max int) []glyph.ID { return g.glyphSet(max) }

// glyphSet returns 1..max distinct glyphs in increasing order.
func (g *LookupGen) glyphSet(max int) []glyph.ID {
	k := 1 + g.T.Draw(max)
	set := map[glyph.ID]bool{}
	if g.T.Chance(1, 4) && g.N > 12 {
		// a few runs of consecutive glyphs: the shape for which the encoder
		// chooses range records (coverage format 2, class definition
		// format 1/2 with long ranges)
		runs := 1 + g.T.Draw(3)
		for r := 0; r < runs; r++ {
			start := int(g.gid())
			n := 2 + g.T.Draw(7)
			for i := 0; i < n && start+i < g.N; i++ {
				set[glyph.ID(start+i)] = true
			}
		}
		k = 0
	}
	for i := 0; i < k; i++ {
		set[g.gid()] = true
	}
	var res []glyph.ID
	for x := range set {
		res = append(res, x)
	}
	sort.Slice(res, func(i, j int) bool { return res[i] < res[j] })
	return res
}

func covTable(gids []glyph.ID) coverage.Table {
	c := coverage.Table{}
	for i, x := range gids {
		c[x] = i
	}
	return c
}

func covSet(gids []glyph.ID) coverage.Set {
	c := coverage.Set{}
	for _, x := range gids {
		c[x] = true
	}
	return c
}

func (g *LookupGen) gids(lo, hi int) []glyph.ID {
	n := g.T.Range(lo, hi)
	res := make([]glyph.ID, n)
	for i := range res {
		res[i] = g.gid()
	}
	return res
}

func (g *LookupGen) classDef(numClasses int) classdef.Table {
	c := classdef.Table{}
	for _, x := range g.glyphSet(12) {
		c[x] = uint16(1 + g.T.Draw(numClasses-1+1)%numClasses)
		if c[x] == 0 {
			delete(c, x)
		}
	}
	return c
}

func (g *LookupGen) actions(seqLen int) []gtab.SeqLookup {
	n := g.T.Weighted(2, 5, 3, 1)
	if g.Wild && g.T.Chance(1, 12) {
		n = g.T.Range(60, 80) // more than the engine's budget
	}
	var res []gtab.SeqLookup
	for i := 0; i < n; i++ {
		a := gtab.SeqLookup{}
		if seqLen > 0 {
			a.SequenceIndex = uint16(g.T.Draw(seqLen))
		}
		if g.NumLookups > 0 {
			a.LookupListIndex = gtab.LookupIndex(g.T.Draw(g.NumLookups))
		}
		if g.Wild {
			switch g.T.Weighted(10, 1, 1, 1) {
			case 1:
				a.SequenceIndex = uint16(seqLen + g.T.Draw(3))
			case 2:
				a.LookupListIndex = gtab.LookupIndex(g.NumLookups + g.T.Draw(3))
			case 3:
				a.SequenceIndex = 0xFFFF
			}
		}
		res = append(res, a)
	}
	return res
}

func (g *LookupGen) flags() (gtab.LookupFlags, uint16) {
	var f gtab.LookupFlags
	var set uint16
	if g.MarkMode {
		switch g.T.Weighted(2, 3, 3, 1, 1) {
		case 1:
			return gtab.UseMarkFilteringSet, 0
		case 2:
			if g.MarkSets > 1 {
				return gtab.UseMarkFilteringSet, uint16(1 + g.T.Draw(g.MarkSets-1))
			}
			return gtab.UseMarkFilteringSet, 0
		case 3:
			return gtab.IgnoreMarks, 0
		case 4:
			return gtab.LookupFlags(1+g.T.Draw(2)) << 8, 0
		}
		return 0, 0
	}
	switch g.T.Weighted(10, 3, 1, 1, 1, 1) {
	case 1:
		f = gtab.IgnoreMarks
	case 2:
		f = gtab.IgnoreLigatures
	case 3:
		f = gtab.IgnoreBaseGlyphs
	case 4:
		f = gtab.UseMarkFilteringSet
		if g.MarkSets > 0 {
			set = uint16(g.T.Draw(g.MarkSets))
		}
		if g.Wild && g.T.Chance(1, 3) {
			set = uint16(g.MarkSets + g.T.Draw(3))
		}
	case 5:
		f = gtab.LookupFlags(1+g.T.Draw(3)) << 8
	}
	if g.T.Chance(1, 10) {
		f |= gtab.IgnoreBaseGlyphs | gtab.IgnoreLigatures
	}
	return f, set
}

// GsubSubtable generates one subtable of the given GSUB lookup type.
func (g *LookupGen) GsubSubtable(tp uint16) gtab.Subtable {
	t := g.T
	switch tp {
	case 1:
		if t.Chance(1, 2) {
			return &gtab.Gsub1_1{Cov: covSet(g.glyphSet(8)), Delta: glyph.ID(t.Range(1, 20))}
		}
		gg := g.glyphSet(8)
		return &gtab.Gsub1_2{Cov: covTable(gg), SubstituteGlyphIDs: g.gids(len(gg), len(gg))}
	case 2:
		gg := g.glyphSet(6)
		s := &gtab.Gsub2_1{Cov: covTable(gg)}
		for range gg {
			lo := 1
			if g.Wild && t.Chance(1, 5) {
				lo = 0
			}
			s.Repl = append(s.Repl, g.gids(lo, 4))
		}
		return s
	case 3:
		gg := g.glyphSet(6)
		s := &gtab.Gsub3_1{Cov: covTable(gg)}
		for range gg {
			lo := 1
			if g.Wild && t.Chance(1, 5) {
				lo = 0
			}
			s.Alternates = append(s.Alternates, g.gids(lo, 4))
		}
		return s
	case 4:
		gg := g.glyphSet(6)
		s := &gtab.Gsub4_1{Cov: covTable(gg)}
		for range gg {
			var ligs []gtab.Ligature
			for i := t.Range(1, 3); i > 0; i-- {
				lo := 1
				if t.Chance(1, 6) {
					lo = 0
				}
				ligs = append(ligs, gtab.Ligature{In: g.gids(lo, 3), Out: g.gid()})
			}
			s.Repl = append(s.Repl, ligs)
		}
		return s
	case 5:
		return g.seqContext()
	case 6:
		return g.chainedContext()
	case 8:
		gg := g.glyphSet(6)
		s := &gtab.Gsub8_1{Input: covTable(gg), SubstituteGlyphIDs: g.gids(len(gg), len(gg))}
		for i := t.Range(0, 2); i > 0; i-- {
			s.Backtrack = append(s.Backtrack, covTable(g.glyphSet(4)))
		}
		for i := t.Range(0, 2); i > 0; i-- {
			s.Lookahead = append(s.Lookahead, covTable(g.glyphSet(4)))
		}
		return s
	}
	panic("simgen: unsupported GSUB type")
}

func (g *LookupGen) ctxFormat() int {
	f := g.T.Draw(3)
	if g.CtxFormat > 0 {
		return g.CtxFormat - 1
	}
	return f
}

func (g *LookupGen) seqContext() gtab.Subtable {
	t := g.T
	switch g.ctxFormat() {
	case 0:
		gg := g.glyphSet(5)
		s := &gtab.SeqContext1{Cov: covTable(gg)}
		for range gg {
			var rules []*gtab.SeqRule
			for i := t.Range(0, 2); i > 0; i-- {
				in := g.gids(0, 3)
				rules = append(rules, &gtab.SeqRule{Input: in, Actions: g.actions(len(in) + 1)})
			}
			s.Rules = append(s.Rules, rules)
		}
		return s
	case 1:
		nc := t.Range(1, 4)
		gg := g.glyphSet(6)
		s := &gtab.SeqContext2{Cov: covTable(gg), Input: g.classDef(nc)}
		for c := 0; c < nc; c++ {
			var rules []*gtab.ClassSeqRule
			for i := t.Range(0, 2); i > 0; i-- {
				n := t.Range(0, 3)
				in := make([]uint16, n)
				for j := range in {
					in[j] = uint16(t.Draw(nc))
					if g.Wild && t.Chance(1, 10) {
						in[j] = uint16(nc + t.Draw(3))
					}
				}
				rules = append(rules, &gtab.ClassSeqRule{Input: in, Actions: g.actions(n + 1)})
			}
			s.Rules = append(s.Rules, rules)
		}
		return s
	default:
		n := t.Range(1, 4)
		s := &gtab.SeqContext3{}
		for i := 0; i < n; i++ {
			s.Input = append(s.Input, covSet(g.glyphSet(5)))
		}
		s.Actions = g.actions(n)
		return s
	}
}

func (g *LookupGen) chainedContext() gtab.Subtable {
	t := g.T
	switch g.ctxFormat() {
	case 0:
		gg := g.glyphSet(5)
		s := &gtab.ChainedSeqContext1{Cov: covTable(gg)}
		for range gg {
			var rules []*gtab.ChainedSeqRule
			for i := t.Range(0, 2); i > 0; i-- {
				in := g.gids(0, 3)
				rules = append(rules, &gtab.ChainedSeqRule{Backtrack: g.gids(0, 2), Input: in, Lookahead: g.gids(0, 2), Actions: g.actions(len(in) + 1)})
			}
			s.Rules = append(s.Rules, rules)
		}
		return s
	case 1:
		nc := t.Range(1, 4)
		gg := g.glyphSet(6)
		s := &gtab.ChainedSeqContext2{Cov: covTable(gg), Backtrack: g.classDef(nc), Input: g.classDef(nc), Lookahead: g.classDef(nc)}
		cls := func(lo, hi int) []uint16 {
			n := t.Range(lo, hi)
			r := make([]uint16, n)
			for j := range r {
				r[j] = uint16(t.Draw(nc))
			}
			return r
		}
		for c := 0; c < nc; c++ {
			var rules []*gtab.ChainedClassSeqRule
			for i := t.Range(0, 2); i > 0; i-- {
				in := cls(0, 3)
				rules = append(rules, &gtab.ChainedClassSeqRule{Backtrack: cls(0, 2), Input: in, Lookahead: cls(0, 2), Actions: g.actions(len(in) + 1)})
			}
			s.Rules = append(s.Rules, rules)
		}
		return s
	default:
		s := &gtab.ChainedSeqContext3{}
		sets := func(lo, hi int) []coverage.Set {
			var r []coverage.Set
			for i := t.Range(lo, hi); i > 0; i-- {
				r = append(r, covSet(g.glyphSet(5)))
			}
			return r
		}
		s.Backtrack = sets(0, 2)
		s.Input = sets(1, 3)
		s.Lookahead = sets(0, 2)
		s.Actions = g.actions(len(s.Input))
		return s
	}
}

func (g *LookupGen) valueRecord() *gtab.GposValueRecord {
	t := g.T
	if t.Chance(1, 8) {
		return nil
	}
	v := &gtab.GposValueRecord{}
	if t.Chance(1, 2) {
		v.XAdvance = funit.Int16(t.Range(0, 400) - 200)
	}
	if t.Chance(1, 3) {
		v.XPlacement = funit.Int16(t.Range(0, 200) - 100)
	}
	if t.Chance(1, 3) {
		v.YPlacement = funit.Int16(t.Range(0, 200) - 100)
	}
	return v
}

func (g *LookupGen) anchorT() anchor.Table {
	return anchor.Table{X: funit.Int16(g.T.Range(0, 1000) - 200), Y: funit.Int16(g.T.Range(0, 1000) - 200)}
}

// GposSubtable generates one subtable of the given GPOS lookup type.
func (g *LookupGen) GposSubtable(tp uint16) gtab.Subtable {
	t := g.T
	switch tp {
	case 1:
		gg := g.glyphSet(8)
		if t.Chance(1, 2) {
			v := g.valueRecord()
			if v == nil {
				v = &gtab.GposValueRecord{XAdvance: 10}
			}
			return &gtab.Gpos1_1{Cov: covTable(gg), Adjust: v}
		}
		s := &gtab.Gpos1_2{Cov: covTable(gg)}
		for range gg {
			v := g.valueRecord()
			if v == nil {
				v = &gtab.GposValueRecord{}
			}
			s.Adjust = append(s.Adjust, v)
		}
		return s
	case 2:
		if t.Chance(1, 2) {
			s := gtab.Gpos2_1{}
			for i := t.Range(1, 10); i > 0; i-- {
				s[glyph.Pair{Left: g.gid(), Right: g.gid()}] = &gtab.PairAdjust{First: g.valueRecord(), Second: g.valueRecord()}
			}
			return s
		}
		n1, n2 := t.Range(1, 3), t.Range(1, 3)
		gg := g.glyphSet(8)
		s := &gtab.Gpos2_2{Cov: covSet(gg), Class1: g.classDef(n1), Class2: g.classDef(n2)}
		for i := 0; i < n1; i++ {
			row := make([]*gtab.PairAdjust, n2)
			for j := range row {
				row[j] = &gtab.PairAdjust{First: g.valueRecord(), Second: g.valueRecord()}
			}
			s.Adjust = append(s.Adjust, row)
		}
		return s
	case 4:
		marks := g.glyphSet(5)
		bases := g.glyphSet(5)
		nc := t.Range(1, 3)
		s := &gtab.Gpos4_1{MarkCov: covTable(marks), BaseCov: covTable(bases)}
		for range marks {
			s.MarkArray = append(s.MarkArray, markarray.Record{Class: uint16(t.Draw(nc)), Table: g.anchorT()})
		}
		for range bases {
			row := make([]anchor.Table, nc)
			for j := range row {
				row[j] = g.anchorT()
			}
			s.BaseArray = append(s.BaseArray, row)
		}
		return s
	case 6:
		m1 := g.glyphSet(5)
		m2 := g.glyphSet(5)
		nc := t.Range(1, 3)
		s := &gtab.Gpos6_1{Mark1Cov: covTable(m1), Mark2Cov: covTable(m2)}
		for range m1 {
			s.Mark1Array = append(s.Mark1Array, markarray.Record{Class: uint16(t.Draw(nc)), Table: g.anchorT()})
		}
		for range m2 {
			row := make([]anchor.Table, nc)
			for j := range row {
				row[j] = g.anchorT()
			}
			s.Mark2Array = append(s.Mark2Array, row)
		}
		return s
	case 7:
		return g.seqContext()
	case 8:
		return g.chainedContext()
	}
	panic("simgen: unsupported GPOS type")
}

var scriptTags = []language.Tag{
	language.MustParse("und-Zzzz"), language.MustParse("und-Latn"), language.English, language.German,
	language.MustParse("und-Arab"), language.MustParse("tr-Latn"), language.MustParse("und-Cyrl"),
	language.MustParse("ru-Cyrl"), language.MustParse("und-Grek"), language.MustParse("fr-Latn"),
	language.MustParse("nl-Latn"), language.MustParse("und-Hebr"), language.MustParse("ar-Arab"),
	language.MustParse("ro-Latn"), language.MustParse("sr-Cyrl"), language.MustParse("pl-Latn"),
	language.MustParse("und-Deva"), language.MustParse("hi-Deva"), language.MustParse("el-Grek"),
	language.MustParse("es-Latn"), language.MustParse("it-Latn"), language.MustParse("sv-Latn"),
}

var gsubFeatureTags = []string{"liga", "calt", "ccmp", "clig", "locl", "smcp", "salt", "dlig", "ss01", "onum"}
var gposFeatureTags = []string{"kern", "mark", "mkmk", "cpsp", "dist"}

// Info generates a complete GSUB (gsub=true) or GPOS table.
func (g *LookupGen) Info(gsub bool) *gtab.Info {
	t := g.T
	nl := t.Range(1, 6)
	g.NumLookups = nl
	info := &gtab.Info{}
	types := []uint16{1, 2, 3, 4, 5, 6, 8}
	if !gsub {
		types = []uint16{1, 2, 4, 6, 7, 8}
	}
	if len(g.Types) > 0 {
		types = g.Types
	}
	for i := 0; i < nl; i++ {
		tp := types[t.Draw(len(types))]
		fl, set := g.flags()
		lt := &gtab.LookupTable{Meta: &gtab.LookupMetaInfo{LookupType: tp, LookupFlags: fl, MarkFilteringSet: set}}
		for j := t.Range(1, 2); j > 0; j-- {
			if gsub {
				lt.Subtables = append(lt.Subtables, g.GsubSubtable(tp))
			} else {
				lt.Subtables = append(lt.Subtables, g.GposSubtable(tp))
			}
		}
		info.LookupList = append(info.LookupList, lt)
	}
	tags := gsubFeatureTags
	if !gsub {
		tags = gposFeatureTags
	}
	nf := t.Range(1, 5)
	for i := 0; i < nf; i++ {
		f := &gtab.Feature{Tag: tags[t.Draw(len(tags))]}
		set := map[int]bool{}
		for j := t.Range(1, 3); j > 0; j-- {
			set[t.Draw(nl)] = true
		}
		for l := 0; l < nl; l++ {
			if set[l] {
				f.Lookups = append(f.Lookups, gtab.LookupIndex(l))
			}
		}
		if t.Chance(1, 3) {
			// the order of the lookup indices in a feature carries no
			// meaning; fonts list them unsorted and sometimes twice
			for j := len(f.Lookups) - 1; j > 0; j-- {
				k := t.Draw(j + 1)
				f.Lookups[j], f.Lookups[k] = f.Lookups[k], f.Lookups[j]
			}
			if t.Chance(1, 3) {
				f.Lookups = append(f.Lookups, f.Lookups[0])
			}
		}
		info.FeatureList = append(info.FeatureList, f)
	}
	info.ScriptList = g.ScriptList(nf, t.Range(1, 4))
	return info
}

// ScriptList generates a script list with n language systems over nf features.
func (g *LookupGen) ScriptList(nf, n int) gtab.ScriptListInfo {
	t := g.T
	sl := gtab.ScriptListInfo{}
	off := t.Draw(len(scriptTags))
	for i := 0; i < n && i < len(scriptTags); i++ {
		tag := scriptTags[(off+i*7)%len(scriptTags)]
		if i == 0 && t.Chance(2, 3) {
			tag = scriptTags[0]
		}
		ff := &gtab.Features{Required: 0xFFFF}
		if t.Chance(1, 3) {
			ff.Required = gtab.FeatureIndex(t.Draw(nf))
		}
		for f := 0; f < nf; f++ {
			if t.Chance(2, 3) {
				ff.Optional = append(ff.Optional, gtab.FeatureIndex(f))
			}
		}
		sl[tag] = ff
	}
	return sl
}

// Gdef generates a GDEF table.
func (g *LookupGen) Gdef() *gdef.Table {
	t := g.T
	tab := &gdef.Table{}
	if g.MarkMode {
		tab.GlyphClass = classdef.Table{}
		var marks []glyph.ID
		for gid := 1; gid < g.N && gid < 40; gid++ {
			switch t.Weighted(3, 3, 1, 4) {
			case 1:
				tab.GlyphClass[glyph.ID(gid)] = gdef.GlyphClassBase
			case 2:
				tab.GlyphClass[glyph.ID(gid)] = gdef.GlyphClassLigature
			case 3:
				tab.GlyphClass[glyph.ID(gid)] = gdef.GlyphClassMark
				marks = append(marks, glyph.ID(gid))
			}
		}
		if len(marks) == 0 {
			tab.GlyphClass[1] = gdef.GlyphClassMark
			marks = append(marks, 1)
		}
		tab.MarkAttachClass = classdef.Table{}
		for _, m := range marks {
			if t.Chance(2, 3) {
				tab.MarkAttachClass[m] = uint16(t.Range(1, 2))
			}
		}
		if len(tab.MarkAttachClass) == 0 {
			tab.MarkAttachClass = nil
		}
		ns := t.Range(2, 3)
		for i := 0; i < ns; i++ {
			set := coverage.Set{}
			for _, m := range marks {
				if t.Chance(1, 2) {
					set[m] = true
				}
			}
			if len(set) == 0 {
				set[marks[t.Draw(len(marks))]] = true
			}
			tab.MarkGlyphSets = append(tab.MarkGlyphSets, set)
		}
		g.MarkSets = ns
		return tab
	}
	if !t.Chance(1, 8) {
		tab.GlyphClass = classdef.Table{}
		for gid := 1; gid < g.N && gid < 400; gid++ {
			switch t.Weighted(4, 4, 1, 3) {
			case 1:
				tab.GlyphClass[glyph.ID(gid)] = gdef.GlyphClassBase
			case 2:
				tab.GlyphClass[glyph.ID(gid)] = gdef.GlyphClassLigature
			case 3:
				tab.GlyphClass[glyph.ID(gid)] = gdef.GlyphClassMark
			}
		}
		if len(tab.GlyphClass) == 0 {
			tab.GlyphClass = nil
		}
	}
	if t.Chance(1, 2) {
		tab.MarkAttachClass = g.classDef(4)
		if len(tab.MarkAttachClass) == 0 {
			tab.MarkAttachClass = nil
		}
	}
	g.MarkSets = 0
	if t.Chance(1, 2) {
		for i := t.Range(1, 3); i > 0; i-- {
			tab.MarkGlyphSets = append(tab.MarkGlyphSets, covSet(g.glyphSet(6)))
		}
		g.MarkSets = len(tab.MarkGlyphSets)
	}
	return tab
}

// AddLayoutTables adds tape-chosen GDEF, GSUB and GPOS tables to f.
func AddLayoutTables(t *tape.Tape, f *sfnt.Font) { AddLayoutTablesHot(t, f, nil) }

// AddLayoutTablesHot is AddLayoutTables with a set of glyphs that are used
// more often than others.
func AddLayoutTablesHot(t *tape.Tape, f *sfnt.Font, hot []glyph.ID) {
	n := f.NumGlyphs()
	if n < 2 {
		return
	}
	g := &LookupGen{T: t, N: n, Hot: hot}
	if t.Chance(2, 3) {
		f.Gdef = g.Gdef()
	}
	if t.Chance(3, 4) {
		f.Gsub = g.Info(true)
	}
	if t.Chance(2, 3) {
		f.Gpos = g.Info(false)
	}
}

// BigGpos builds a GPOS table whose lookup data exceeds 64 KiB, so that the
// encoder has to reorder lookups and introduce extension subtables; several
// lookups have exactly the same size (ties in any ordering by size).
func BigGpos(t *tape.Tape, n int) *gtab.Info {
	if n < 40 {
		return nil
	}
	info := &gtab.Info{}
	nl := t.Range(7, 11)
	pairsPer := []int{t.Range(900, 1400), t.Range(900, 1400)}
	for l := 0; l < nl; l++ {
		np := pairsPer[t.Draw(2)]
		s := gtab.Gpos2_1{}
		// np distinct pairs, deterministic shape so that equal np gives
		// equal encoded size
		// (the same pairs in every lookup of that size; only the values differ)
		for i := 0; len(s) < np && i < 4*np; i++ {
			left := glyph.ID(1 + (i/37)%(n-1))
			right := glyph.ID(1 + (i*7)%(n-1))
			v := funit.Int16(1 + (i+l)%200)
			s[glyph.Pair{Left: left, Right: right}] = &gtab.PairAdjust{
				First:  &gtab.GposValueRecord{XAdvance: v, XPlacement: v + 1, YPlacement: v + 2},
				Second: &gtab.GposValueRecord{XAdvance: -v, XPlacement: 3, YPlacement: 4},
			}
		}
		info.LookupList = append(info.LookupList, &gtab.LookupTable{Meta: &gtab.LookupMetaInfo{LookupType: 2}, Subtables: []gtab.Subtable{s}})
	}
	var all []gtab.LookupIndex
	for i := range info.LookupList {
		all = append(all, gtab.LookupIndex(i))
	}
	info.FeatureList = gtab.FeatureListInfo{{Tag: "kern", Lookups: all}}
	info.ScriptList = gtab.ScriptListInfo{language.MustParse("und-Zzzz"): {Required: 0xFFFF, Optional: []gtab.FeatureIndex{0}}}
	return info
}

// MidGpos builds a GPOS table with one or two pair adjustment subtables of
// 300..900 pairs (3..12 KiB encoded): the size of real kerning data.
func MidGpos(t *tape.Tape, n int) *gtab.Info {
	info := &gtab.Info{}
	nl := t.Range(1, 2)
	for l := 0; l < nl; l++ {
		np := t.Range(300, 900)
		s := gtab.Gpos2_1{}
		for i := 0; len(s) < np && i < 4*np; i++ {
			left := glyph.ID(1 + (i/23)%(n-1))
			right := glyph.ID(1 + (i*5)%(n-1))
			v := funit.Int16(1 + (i+l)%120)
			s[glyph.Pair{Left: left, Right: right}] = &gtab.PairAdjust{
				First: &gtab.GposValueRecord{XAdvance: -v},
			}
		}
		info.LookupList = append(info.LookupList, &gtab.LookupTable{Meta: &gtab.LookupMetaInfo{LookupType: 2}, Subtables: []gtab.Subtable{s}})
	}
	var all []gtab.LookupIndex
	for i := range info.LookupList {
		all = append(all, gtab.LookupIndex(i))
	}
	info.FeatureList = gtab.FeatureListInfo{{Tag: "kern", Lookups: all}}
	info.ScriptList = gtab.ScriptListInfo{language.MustParse("und-Zzzz"): {Required: 0xFFFF, Optional: []gtab.FeatureIndex{0}}}
	return info
}

// CoveredGlyphs returns the glyphs the subtables of info refer to in their
// coverage tables, rules and class definitions (the glyphs on which the
// lookups can act).
func CoveredGlyphs(info *gtab.Info) []glyph.ID {
	set := map[glyph.ID]bool{}
	add := func(g glyph.ID) { set[g] = true }
	for _, l := range info.LookupList {
		if l == nil {
			continue
		}
		for _, st := range l.Subtables {
			switch s := st.(type) {
			case *gtab.Gsub1_1:
				for g := range s.Cov {
					add(g)
				}
			case *gtab.Gsub1_2:
				for g := range s.Cov {
					add(g)
				}
			case *gtab.Gsub2_1:
				for g := range s.Cov {
					add(g)
				}
			case *gtab.Gsub3_1:
				for g := range s.Cov {
					add(g)
				}
			case *gtab.Gsub4_1:
				for g := range s.Cov {
					add(g)
				}
				for _, ll := range s.Repl {
					for _, lig := range ll {
						for _, g := range lig.In {
							add(g)
						}
					}
				}
			case *gtab.Gsub8_1:
				for g := range s.Input {
					add(g)
				}
			case *gtab.SeqContext1:
				for g := range s.Cov {
					add(g)
				}
				for _, rr := range s.Rules {
					for _, r := range rr {
						for _, g := range r.Input {
							add(g)
						}
					}
				}
			case *gtab.SeqContext2:
				for g := range s.Cov {
					add(g)
				}
				for g := range s.Input {
					add(g)
				}
			case *gtab.SeqContext3:
				for _, cs := range s.Input {
					for g := range cs {
						add(g)
					}
				}
			case *gtab.ChainedSeqContext1:
				for g := range s.Cov {
					add(g)
				}
				for _, rr := range s.Rules {
					for _, r := range rr {
						for _, g := range r.Input {
							add(g)
						}
						for _, g := range r.Backtrack {
							add(g)
						}
						for _, g := range r.Lookahead {
							add(g)
						}
					}
				}
			case *gtab.ChainedSeqContext2:
				for g := range s.Cov {
					add(g)
				}
				for g := range s.Input {
					add(g)
				}
			case *gtab.ChainedSeqContext3:
				for _, cs := range s.Input {
					for g := range cs {
						add(g)
					}
				}
				for _, cs := range s.Backtrack {
					for g := range cs {
						add(g)
					}
				}
				for _, cs := range s.Lookahead {
					for g := range cs {
						add(g)
					}
				}
			case *gtab.Gpos1_1:
				for g := range s.Cov {
					add(g)
				}
			case *gtab.Gpos1_2:
				for g := range s.Cov {
					add(g)
				}
			case gtab.Gpos2_1:
				for p := range s {
					add(p.Left)
					add(p.Right)
				}
			case *gtab.Gpos2_2:
				for g := range s.Cov {
					add(g)
				}
				for g := range s.Class2 {
					add(g)
				}
			case *gtab.Gpos4_1:
				for g := range s.MarkCov {
					add(g)
				}
				for g := range s.BaseCov {
					add(g)
				}
			case *gtab.Gpos6_1:
				for g := range s.Mark1Cov {
					add(g)
				}
				for g := range s.Mark2Cov {
					add(g)
				}
			}
		}
	}
	var res []glyph.ID
	for g := range set {
		res = append(res, g)
	}
	sort.Slice(res, func(i, j int) bool { return res[i] < res[j] })
	return res
}

// NormalPairs returns ll with every pair adjustment subtable brought into
// the form the file format can hold: the file has one ValueFormat2 per
// subtable, so as soon as one pair has a second value record every pair has
// one (a missing one becomes the zero record).  The
// engine moves on differently after a pair with and without a second record
// (as the OpenType specification demands for ValueFormat2 == 0), so a table
// that mixes both is not representable; C01 compares with the normal form.
func NormalPairs(ll gtab.LookupList) gtab.LookupList {
	// (the encoder gives a non-nil zero record a format of its own, so that
	// "no second record" and "zero second record" stay apart)
	nonZero := func(v *gtab.GposValueRecord) bool { return v != nil }
	norm := func(p *gtab.PairAdjust, hasSecond bool) *gtab.PairAdjust {
		q := &gtab.PairAdjust{First: p.First}
		switch {
		case hasSecond && p.Second == nil:
			q.Second = &gtab.GposValueRecord{}
		case hasSecond:
			q.Second = p.Second
		}
		return q
	}
	res := make(gtab.LookupList, len(ll))
	for i, lt := range ll {
		if lt == nil {
			continue
		}
		cp := *lt
		cp.Subtables = append([]gtab.Subtable(nil), lt.Subtables...)
		for j, st := range cp.Subtables {
			switch s := st.(type) {
			case gtab.Gpos2_1:
				has := false
				for _, p := range s {
					has = has || nonZero(p.Second)
				}
				n := gtab.Gpos2_1{}
				for k, p := range s {
					n[k] = norm(p, has)
				}
				cp.Subtables[j] = n
			case *gtab.Gpos2_2:
				has := false
				for _, row := range s.Adjust {
					for _, p := range row {
						has = has || nonZero(p.Second)
					}
				}
				n := *s
				n.Adjust = nil
				for _, row := range s.Adjust {
					var r []*gtab.PairAdjust
					for _, p := range row {
						r = append(r, norm(p, has))
					}
					n.Adjust = append(n.Adjust, r)
				}
				cp.Subtables[j] = &n
			}
		}
		res[i] = &cp
	}
	return res
}

// NestedMergeGsub builds a GSUB table around one contextual rule whose nested
// actions change the length of the sequence under other lookup flags than
// the rule's own: the rule ignores marks, its actions are ligatures that
// swallow marks or following bases, expansions, or two-glyph contexts.  The
// glyphs are few (bases 1..6, marks 8..10) so that generated sequences hit
// the rule, often at their very end.  It returns the table, the GDEF table
// that makes 8..10 marks, the number of glyphs, and glyph sequences derived
// from the rule: its input, followed by what a first ligature action needs
// and by all but the last component of what a second one would need - text
// that ends in the middle of a match.
func NestedMergeGsub(t *tape.Tape) (*gtab.Info, *gdef.Table, int, [][]glyph.ID) {
	const n = 12
	base := func() glyph.ID { return glyph.ID(1 + t.Draw(6)) }
	mark := func() glyph.ID { return glyph.ID(8 + t.Draw(3)) }
	gd := &gdef.Table{GlyphClass: classdef.Table{}}
	for g := 1; g <= 6; g++ {
		gd.GlyphClass[glyph.ID(g)] = gdef.GlyphClassBase
	}
	for g := 8; g <= 10; g++ {
		gd.GlyphClass[glyph.ID(g)] = gdef.GlyphClassMark
	}
	flagsOf := func(w ...int) gtab.LookupFlags {
		return []gtab.LookupFlags{gtab.IgnoreMarks, 0, gtab.IgnoreBaseGlyphs, gtab.IgnoreLigatures}[t.Weighted(w...)]
	}
	input := []glyph.ID{base(), base()}
	if t.Chance(1, 3) {
		input = append(input, base())
	}
	var actions []gtab.SeqLookup
	for i := t.Range(2, 3); i > 0; i-- {
		actions = append(actions, gtab.SeqLookup{SequenceIndex: uint16(t.Draw(len(input))), LookupListIndex: gtab.LookupIndex(1 + t.Draw(3))})
	}
	var ctx gtab.Subtable
	switch t.Draw(3) {
	case 0:
		ctx = &gtab.SeqContext1{Cov: coverage.Table{input[0]: 0}, Rules: [][]*gtab.SeqRule{{{Input: input[1:], Actions: actions}}}}
	case 1:
		s := &gtab.SeqContext3{Actions: actions}
		for _, g := range input {
			s.Input = append(s.Input, coverage.Set{g: true})
		}
		ctx = s
	default:
		s := &gtab.ChainedSeqContext3{Actions: actions}
		for _, g := range input {
			s.Input = append(s.Input, coverage.Set{g: true})
		}
		if t.Chance(1, 2) {
			s.Lookahead = []coverage.Set{{base(): true, mark(): true}}
		}
		ctx = s
	}
	tp := uint16(5)
	if _, chained := ctx.(*gtab.ChainedSeqContext3); chained {
		tp = 6
	}
	info := &gtab.Info{}
	add := func(tp uint16, fl gtab.LookupFlags, st gtab.Subtable) {
		info.LookupList = append(info.LookupList, &gtab.LookupTable{Meta: &gtab.LookupMetaInfo{LookupType: tp, LookupFlags: fl}, Subtables: []gtab.Subtable{st}})
	}
	add(tp, flagsOf(6, 1, 1, 1), ctx)
	// a ligature lookup under other flags: an input glyph swallows what
	// follows it; a second one continues from the results of the first and
	// asks for more components than may be left
	var outs []glyph.ID
	lig := func(firstsIn []glyph.ID, minComp, maxComp int) gtab.Subtable {
		s := &gtab.Gsub4_1{Cov: coverage.Table{}}
		firsts := map[glyph.ID]bool{}
		for _, g := range firstsIn {
			firsts[g] = true
		}
		var sorted []glyph.ID
		for g := range firsts {
			sorted = append(sorted, g)
		}
		sort.Slice(sorted, func(i, j int) bool { return sorted[i] < sorted[j] })
		for i, g := range sorted {
			s.Cov[g] = i
			var ligs []gtab.Ligature
			for k := t.Range(1, 2); k > 0; k-- {
				var comp []glyph.ID
				for j := t.Range(minComp, maxComp); j > 0; j-- {
					if t.Chance(1, 4) {
						comp = append(comp, base())
					} else {
						comp = append(comp, mark())
					}
				}
				out := base()
				outs = append(outs, out)
				ligs = append(ligs, gtab.Ligature{In: comp, Out: out})
			}
			s.Repl = append(s.Repl, ligs)
		}
		return s
	}
	add(4, flagsOf(1, 6, 1, 1), lig(input, 1, 2))
	switch t.Draw(3) {
	case 0:
		add(4, flagsOf(2, 3, 1, 1), lig(append(append([]glyph.ID(nil), outs...), input...), 1, 3))
	case 1:
		g0 := input[t.Draw(len(input))]
		repl := []glyph.ID{base(), mark(), base()}[:t.Range(2, 3)]
		add(2, flagsOf(2, 3, 1, 1), &gtab.Gsub2_1{Cov: coverage.Table{g0: 0}, Repl: [][]glyph.ID{repl}})
	default:
		g0 := input[t.Draw(len(input))]
		add(5, flagsOf(2, 3, 1, 1), &gtab.SeqContext1{Cov: coverage.Table{g0: 0}, Rules: [][]*gtab.SeqRule{{{Input: []glyph.ID{mark()}, Actions: []gtab.SeqLookup{{SequenceIndex: uint16(t.Draw(2)), LookupListIndex: 3}}}}}})
	}
	gg := []glyph.ID{1, 2, 3, 4, 5, 6, 8, 9, 10}
	sub := &gtab.Gsub1_2{Cov: coverage.Table{}}
	for i, g := range gg {
		sub.Cov[g] = i
		sub.SubstituteGlyphIDs = append(sub.SubstituteGlyphIDs, glyph.ID(1+t.Draw(n-1)))
	}
	add(1, 0, sub)
	info.FeatureList = gtab.FeatureListInfo{{Tag: "test", Lookups: []gtab.LookupIndex{0}}}
	info.ScriptList = gtab.ScriptListInfo{language.MustParse("und-Zzzz"): {Required: 0}}
	// sequences that follow the rule
	var seqs [][]glyph.ID
	l1, _ := info.LookupList[1].Subtables[0].(*gtab.Gsub4_1)
	l2, _ := info.LookupList[2].Subtables[0].(*gtab.Gsub4_1)
	for k := 0; k < 6 && l1 != nil; k++ {
		seq := append([]glyph.ID(nil), input...)
		last := input[len(input)-1]
		idx, ok := l1.Cov[last]
		if !ok || len(l1.Repl[idx]) == 0 {
			break
		}
		lg := l1.Repl[idx][t.Draw(len(l1.Repl[idx]))]
		seq = append(seq, lg.In...)
		if l2 != nil {
			if j, ok := l2.Cov[lg.Out]; ok && len(l2.Repl[j]) > 0 {
				more := l2.Repl[j][t.Draw(len(l2.Repl[j]))].In
				seq = append(seq, more[:t.Draw(len(more)+1)]...)
			}
		}
		if t.Chance(1, 3) {
			seq = append([]glyph.ID{base()}, seq...)
		}
		seqs = append(seqs, seq)
	}
	return info, gd, n, seqs
}
