package simgen

import (
	"encoding/binary"
	"fmt"
)

// RefCmap is an independent decoder of cmap subtable formats 4 and 12,
// written from the OpenType specification ("cmap - Character to Glyph Index
// Mapping Table") and sharing no code with the repository.  It is used as the
// independent judge of the character mapping in written font files.
type RefCmap struct {
	format uint16
	data   []byte // the chosen subtable
}

// NewRefCmap picks the subtable a Unicode-aware reader would use: (3,10),
// (0,4), (3,1), (0,3), in that order.
func NewRefCmap(table []byte) (*RefCmap, error) {
	if len(table) < 4 {
		return nil, fmt.Errorf("cmap table too short")
	}
	n := int(binary.BigEndian.Uint16(table[2:]))
	if len(table) < 4+8*n {
		return nil, fmt.Errorf("cmap header truncated")
	}
	prefs := [][2]uint16{{3, 10}, {0, 4}, {3, 1}, {0, 3}}
	for _, want := range prefs {
		for i := 0; i < n; i++ {
			rec := table[4+8*i:]
			if binary.BigEndian.Uint16(rec) != want[0] || binary.BigEndian.Uint16(rec[2:]) != want[1] {
				continue
			}
			off := int(binary.BigEndian.Uint32(rec[4:]))
			if off+4 > len(table) {
				return nil, fmt.Errorf("subtable offset out of range")
			}
			format := binary.BigEndian.Uint16(table[off:])
			switch format {
			case 4:
				if off+4 > len(table) {
					return nil, fmt.Errorf("format 4 header truncated")
				}
				l := int(binary.BigEndian.Uint16(table[off+2:]))
				if off+l > len(table) || l < 16 {
					return nil, fmt.Errorf("format 4 length out of range")
				}
				return &RefCmap{format: 4, data: table[off : off+l]}, nil
			case 12:
				if off+16 > len(table) {
					return nil, fmt.Errorf("format 12 header truncated")
				}
				l := int(binary.BigEndian.Uint32(table[off+4:]))
				if off+l > len(table) || l < 16 {
					return nil, fmt.Errorf("format 12 length out of range")
				}
				return &RefCmap{format: 12, data: table[off : off+l]}, nil
			default:
				return nil, fmt.Errorf("subtable format %d not handled by the reference decoder", format)
			}
		}
	}
	return nil, fmt.Errorf("no Unicode subtable")
}

// Lookup returns the glyph for code point c as the specification defines it.
func (r *RefCmap) Lookup(c rune) (uint16, error) {
	d := r.data
	switch r.format {
	case 4:
		if c < 0 || c > 0xFFFF {
			return 0, nil
		}
		segX2 := int(binary.BigEndian.Uint16(d[6:]))
		seg := segX2 / 2
		endOff := 14
		startOff := endOff + segX2 + 2
		deltaOff := startOff + segX2
		rangeOff := deltaOff + segX2
		if rangeOff+segX2 > len(d) {
			return 0, fmt.Errorf("format 4 arrays exceed the subtable")
		}
		for i := 0; i < seg; i++ {
			end := rune(binary.BigEndian.Uint16(d[endOff+2*i:]))
			if end < c {
				continue
			}
			start := rune(binary.BigEndian.Uint16(d[startOff+2*i:]))
			if start > c {
				return 0, nil
			}
			delta := binary.BigEndian.Uint16(d[deltaOff+2*i:])
			ro := int(binary.BigEndian.Uint16(d[rangeOff+2*i:]))
			if ro == 0 {
				return uint16(c) + delta, nil
			}
			addr := rangeOff + 2*i + ro + 2*int(c-start)
			if addr+2 > len(d) {
				return 0, fmt.Errorf("glyphIdArray access beyond the subtable")
			}
			g := binary.BigEndian.Uint16(d[addr:])
			if g == 0 {
				return 0, nil
			}
			// "If the value obtained from indexing is not 0, idDelta[i] is
			// added to it to get the glyph index."
			return g + delta, nil
		}
		return 0, nil
	case 12:
		n := int(binary.BigEndian.Uint32(d[12:]))
		if 16+12*n > len(d) {
			return 0, fmt.Errorf("format 12 groups exceed the subtable")
		}
		for i := 0; i < n; i++ {
			g := d[16+12*i:]
			start := rune(binary.BigEndian.Uint32(g))
			end := rune(binary.BigEndian.Uint32(g[4:]))
			if c >= start && c <= end {
				return uint16(binary.BigEndian.Uint32(g[8:]) + uint32(c-start)), nil
			}
		}
		return 0, nil
	}
	return 0, fmt.Errorf("unsupported format")
}
