package simgen

import (
	"encoding/binary"
	"fmt"
	"math"
	"sort"

	"seehuhn.de/go/sfnt/zzverif/tape"
)

// FaultKinds lists the stored-data fault catalogue.
var FaultKinds = []string{"truncate", "bitflip", "byte-set", "field16-set", "field32-set", "zero-sector", "dup-sector",
	"swap-sectors", "torn-overwrite", "garbage-tail", "random-sector", "field16-nudge", "byte-nudge", "length32", "length16", "word-copy", "overlapping-records", "dir-lost-table", "dir-length", "dir-offset", "dir-swap"}

// Fault describes one applied stored-data fault.
type Fault struct {
	Kind string
	Off  int
	Len  int
	Note string
}

func (f Fault) String() string {
	return fmt.Sprintf("%s@%d+%d %s", f.Kind, f.Off, f.Len, f.Note)
}

var sectorSizes = []int{4, 16, 64, 512}
var field16Values = []uint16{0, 1, 2, 0x7FFF, 0x8000, 0xFFFF, 0xFFFE, 0x0100}
var field32Values = []uint32{0, 1, 0x7FFFFFFF, 0x80000000, 0xFFFFFFFF, 0x00010000, 0x0000FFFF, 0xFFFFFFF0, 0xFFFFFFFE}
var byteValues = []byte{0x00, 0xFF, 0x7F, 0x80, 0x01}

// Corrupt applies one tape-chosen fault to a copy of data, inside the region
// [lo, hi).  other (may be nil) is an older/other file of the same kind used
// for torn overwrites.
func Corrupt(t *tape.Tape, data []byte, lo, hi int, other []byte) ([]byte, Fault) {
	out := append([]byte(nil), data...)
	if hi > len(out) {
		hi = len(out)
	}
	if lo >= hi {
		lo, hi = 0, len(out)
	}
	if len(out) == 0 {
		return out, Fault{Kind: "none"}
	}
	n := hi - lo
	pos := func(align int) int {
		p := lo + t.Draw(n)
		switch t.Weighted(3, 2, 2) {
		case 1:
			p = lo + t.Draw(min(n, 64)) // near the start of the region: headers, counts, offsets
		case 2:
			p = hi - 1 - t.Draw(min(n, 16)) // near the end
		}
		p -= p % align
		if p < 0 {
			p = 0
		}
		if p >= len(out) {
			p = len(out) - 1
		}
		return p
	}
	kind := t.Weighted(2, 6, 4, 8, 4, 2, 2, 2, 2, 1, 2, 6, 5, 5, 5, 5)
	switch kind {
	case 0:
		k := pos(1)
		return out[:k], Fault{Kind: "truncate", Off: k}
	case 1:
		nb := 1 + t.Weighted(6, 2, 1, 1)
		p := pos(1)
		for i := 0; i < nb; i++ {
			q := p
			if i > 0 {
				q = pos(1)
			}
			out[q] ^= 1 << t.Draw(8)
		}
		return out, Fault{Kind: "bitflip", Off: p, Len: nb}
	case 2:
		p := pos(1)
		v := byteValues[t.Draw(len(byteValues))]
		out[p] = v
		return out, Fault{Kind: "byte-set", Off: p, Len: 1, Note: fmt.Sprintf("=%#x", v)}
	case 3:
		p := pos(2)
		if p+2 > len(out) {
			p = len(out) - 2
		}
		if p < 0 {
			return out, Fault{Kind: "none"}
		}
		v := field16Values[t.Draw(len(field16Values))]
		binary.BigEndian.PutUint16(out[p:], v)
		return out, Fault{Kind: "field16-set", Off: p, Len: 2, Note: fmt.Sprintf("=%#x", v)}
	case 4:
		p := pos(4)
		if p+4 > len(out) {
			p = len(out) - 4
		}
		if p < 0 {
			return out, Fault{Kind: "none"}
		}
		v := field32Values[t.Draw(len(field32Values))]
		binary.BigEndian.PutUint32(out[p:], v)
		return out, Fault{Kind: "field32-set", Off: p, Len: 4, Note: fmt.Sprintf("=%#x", v)}
	case 5:
		ss := sectorSizes[t.Draw(len(sectorSizes))]
		p := pos(ss)
		e := min(p+ss, len(out))
		for i := p; i < e; i++ {
			out[i] = 0
		}
		return out, Fault{Kind: "zero-sector", Off: p, Len: e - p}
	case 6:
		ss := sectorSizes[t.Draw(len(sectorSizes))]
		p, q := pos(ss), pos(ss)
		e := min(p+ss, len(out))
		copy(out[p:e], data[q:min(q+ss, len(data))])
		return out, Fault{Kind: "dup-sector", Off: p, Len: e - p, Note: fmt.Sprintf("copy of %d", q)}
	case 7:
		ss := sectorSizes[t.Draw(len(sectorSizes))]
		p, q := pos(ss), pos(ss)
		for i := 0; i < ss && p+i < len(out) && q+i < len(out); i++ {
			out[p+i], out[q+i] = data[q+i], data[p+i]
		}
		return out, Fault{Kind: "swap-sectors", Off: p, Len: ss, Note: fmt.Sprintf("with %d", q)}
	case 8:
		if len(other) == 0 {
			other = make([]byte, len(data))
		}
		k := pos(1)
		// prefix of this file, suffix of the other one
		res := append([]byte(nil), out[:k]...)
		if k < len(other) {
			res = append(res, other[k:]...)
		}
		return res, Fault{Kind: "torn-overwrite", Off: k}
	case 9:
		g := t.Bytes(1 + t.Draw(64))
		return append(out, g...), Fault{Kind: "garbage-tail", Off: len(out), Len: len(g)}
	case 10:
		ss := sectorSizes[t.Draw(len(sectorSizes))]
		p := pos(ss)
		e := min(p+ss, len(out))
		copy(out[p:e], t.Bytes(e-p))
		return out, Fault{Kind: "random-sector", Off: p, Len: e - p}
	case 13, 14:
		// A stored length, count or offset goes wrong: pick a word that
		// looks like one (its value is positive and not larger than the
		// data) and replace it by an extreme or slightly wrong value.
		w := 4
		if kind == 14 {
			w = 2
		}
		var cands []int
		for p := lo - lo%2; p+w <= hi && p+w <= len(out); p += 2 {
			var v uint64
			if w == 4 {
				v = uint64(binary.BigEndian.Uint32(out[p:]))
			} else {
				v = uint64(binary.BigEndian.Uint16(out[p:]))
			}
			if v > 0 && v <= uint64(len(out)) {
				cands = append(cands, p)
			}
		}
		if len(cands) == 0 {
			return out, Fault{Kind: "none"}
		}
		// lengths and counts sit in headers: choose the candidate with a
		// log-uniform rank, so that early words are hit much more often
		u := float64(t.Draw(1<<20)) / float64(1<<20)
		rank := int(math.Exp(u*math.Log(float64(len(cands)+1)))) - 1
		if rank >= len(cands) {
			rank = len(cands) - 1
		}
		p := cands[rank]
		if w == 4 {
			v := binary.BigEndian.Uint32(out[p:])
			nv := []uint32{0xFFFFFFFF, 0xFFFFFFFF - uint32(t.Draw(64)), 0x7FFFFFFF, uint32(len(out)), uint32(len(out)) + 1, v + uint32(len(out)), v + 1, v - 1, 0x80000000, 0xFFFF}[t.Draw(10)]
			binary.BigEndian.PutUint32(out[p:], nv)
			return out, Fault{Kind: "length32", Off: p, Len: 4, Note: fmt.Sprintf("%#x->%#x", v, nv)}
		}
		v := binary.BigEndian.Uint16(out[p:])
		nv := []uint16{0xFFFF, 0xFFFF - uint16(t.Draw(16)), 0x7FFF, uint16(len(out)), uint16(len(out)) + 1, v + 1, v - 1, 0x8000, v * 2}[t.Draw(9)]
		binary.BigEndian.PutUint16(out[p:], nv)
		return out, Fault{Kind: "length16", Off: p, Len: 2, Note: fmt.Sprintf("%#x->%#x", v, nv)}
	case 15:
		// a small misdirected write: a 16-bit word is overwritten with the
		// word stored 1..3 words before or after it
		p := pos(2)
		d := 2 * (1 + t.Draw(3))
		if t.Chance(1, 2) {
			d = -d
		}
		q := p + d
		if p+2 > len(out) || q < 0 || q+2 > len(out) {
			return out, Fault{Kind: "none"}
		}
		copy(out[p:p+2], data[q:q+2])
		return out, Fault{Kind: "word-copy", Off: p, Len: 2, Note: fmt.Sprintf("from %d", q)}
	case 12:
		p := pos(1)
		v := out[p]
		d := []byte{1, 0xFF, 2, 0xFE}[t.Draw(4)]
		out[p] = v + d
		return out, Fault{Kind: "byte-nudge", Off: p, Len: 1, Note: fmt.Sprintf("%#x->%#x", v, v+d)}
	default:
		p := pos(2)
		if p+2 > len(out) {
			p = len(out) - 2
		}
		if p < 0 {
			return out, Fault{Kind: "none"}
		}
		v := binary.BigEndian.Uint16(out[p:])
		d := []uint16{1, 0xFFFF, 2, 0xFFFE, 4, 0x100}[t.Draw(6)]
		binary.BigEndian.PutUint16(out[p:], v+d)
		return out, Fault{Kind: "field16-nudge", Off: p, Len: 2, Note: fmt.Sprintf("%#x->%#x", v, v+d)}
	}
}

// CorruptFile applies 1..3 faults (mostly 1) to an sfnt file; half of the
// faults are aimed at a table chosen uniformly from the directory (so that
// small tables are hit as often as large ones), a tenth at the directory.
func CorruptFile(t *tape.Tape, data []byte, other []byte) ([]byte, []Fault) {
	nf := 1 + t.Weighted(6, 2, 1)
	var faults []Fault
	cur := data
	for i := 0; i < nf; i++ {
		lo, hi := 0, len(cur)
		if dir, err := ParseDirectory(cur); err == nil && len(dir.Entries) > 0 {
			switch t.Weighted(5, 4, 1) {
			case 0:
				e := dir.Entries[t.Draw(len(dir.Entries))]
				lo, hi = int(e.Offset), int(e.Offset)+int(e.Length)
			case 2:
				lo, hi = 0, 12+16*len(dir.Entries)
			}
		}
		var f Fault
		if dir, err := ParseDirectory(cur); err == nil && len(dir.Entries) > 0 && t.Chance(1, 6) {
			cur, f = corruptDirectory(t, cur, dir)
		} else {
			cur, f = Corrupt(t, cur, lo, hi, other)
		}
		if f.Kind != "none" {
			faults = append(faults, f)
		}
	}
	return cur, faults
}

// corruptDirectory applies a fault to one record of the table directory: the
// table is lost (its tag no longer matches), its length or offset is slightly
// wrong, or two records exchange their offsets (misdirected writes).
func corruptDirectory(t *tape.Tape, data []byte, dir *Container) ([]byte, Fault) {
	out := append([]byte(nil), data...)
	i := t.Draw(len(dir.Entries))
	rec := 12 + 16*i
	e := dir.Entries[i]
	switch t.Weighted(3, 4, 2, 2) {
	case 0:
		out[rec+t.Draw(4)] ^= 1 << t.Draw(6)
		return out, Fault{Kind: "dir-lost-table", Off: rec, Len: 4, Note: e.Tag}
	case 1:
		d := []uint32{1, 2, 3, 4, 0xFFFFFFFF, 0xFFFFFFFE, 0xFFFFFFFC, 16}[t.Draw(8)]
		binary.BigEndian.PutUint32(out[rec+12:], e.Length+d)
		return out, Fault{Kind: "dir-length", Off: rec + 12, Len: 4, Note: fmt.Sprintf("%s %d->%d", e.Tag, e.Length, e.Length+d)}
	case 2:
		d := []uint32{4, 0xFFFFFFFC, 8, 0xFFFFFFF8, 1, 2}[t.Draw(6)]
		binary.BigEndian.PutUint32(out[rec+8:], e.Offset+d)
		return out, Fault{Kind: "dir-offset", Off: rec + 8, Len: 4, Note: fmt.Sprintf("%s %d->%d", e.Tag, e.Offset, e.Offset+d)}
	default:
		j := t.Draw(len(dir.Entries))
		rj := 12 + 16*j
		copy(out[rec+8:rec+16], data[rj+8:rj+16])
		copy(out[rj+8:rj+16], data[rec+8:rec+16])
		return out, Fault{Kind: "dir-swap", Off: rec + 8, Len: 8, Note: e.Tag + "<->" + dir.Entries[j].Tag}
	}
}

// OverlapRecords is a writer artefact rather than a medium fault: the region
// [lo, hi) holds a table of the shape (format, count, sorted records) - a
// coverage table or class definition table - as a sloppy font tool writes
// it: neighbouring records that share a glyph.  Format 1 (2-byte glyph
// records): one glyph is listed twice.  Format 2 (start, end, value range
// records): a range starts at the glyph where the previous one ended, either
// by moving its start only or by shifting the whole range down.
func OverlapRecords(t *tape.Tape, data []byte, lo, hi int) ([]byte, Fault) {
	out := append([]byte(nil), data...)
	if hi > len(out) {
		hi = len(out)
	}
	if hi-lo < 8 {
		return out, Fault{Kind: "none"}
	}
	format := binary.BigEndian.Uint16(out[lo:])
	count := int(binary.BigEndian.Uint16(out[lo+2:]))
	switch {
	case format == 1 && count >= 2 && lo+4+2*count <= hi:
		i := 1 + t.Draw(count-1)
		p := lo + 4 + 2*i
		copy(out[p:p+2], out[p-2:p])
		return out, Fault{Kind: "overlapping-records", Off: p, Len: 2, Note: "glyph listed twice"}
	case format == 2 && count >= 2 && lo+4+6*count <= hi:
		i := 1 + t.Draw(count-1)
		p := lo + 4 + 6*i
		prevEnd := binary.BigEndian.Uint16(out[p-4:])
		start := binary.BigEndian.Uint16(out[p:])
		end := binary.BigEndian.Uint16(out[p+2:])
		if t.Chance(1, 2) {
			binary.BigEndian.PutUint16(out[p:], prevEnd)
			return out, Fault{Kind: "overlapping-records", Off: p, Len: 2, Note: "range starts at the previous end"}
		}
		binary.BigEndian.PutUint16(out[p:], prevEnd)
		binary.BigEndian.PutUint16(out[p+2:], end-(start-prevEnd))
		return out, Fault{Kind: "overlapping-records", Off: p, Len: 4, Note: "range shifted onto the previous end"}
	}
	return out, Fault{Kind: "none"}
}

// AliasBomb assembles a GSUB table by hand in which nLookups lookup records
// all point at one and the same lookup table, whose subPerLookup subtable
// offsets all point at one and the same single-substitution subtable: a
// legal use of offsets (sharing is how font tools save space) that makes the
// decoded size a multiple of the stored size.  markFiltering adds the
// UseMarkFilteringSet flag and the set index to the shared lookup table.
func AliasBomb(nLookups, subPerLookup int, markFiltering bool) []byte {
	be := func(b []byte, v int) []byte { return append(b, byte(v>>8), byte(v)) }
	var b []byte
	b = be(b, 1)  // major version
	b = be(b, 0)  // minor version
	b = be(b, 10) // script list
	b = be(b, 12) // feature list
	b = be(b, 14) // lookup list
	b = be(b, 0)  // no scripts
	b = be(b, 0)  // no features
	// lookup list
	b = be(b, nLookups)
	lookupOffs := 2 + 2*nLookups
	for i := 0; i < nLookups; i++ {
		b = be(b, lookupOffs)
	}
	// the shared lookup table
	flags := 0
	if markFiltering {
		flags = 0x0010
	}
	b = be(b, 1) // single substitution
	b = be(b, flags)
	b = be(b, subPerLookup)
	subOffs := 6 + 2*subPerLookup
	if markFiltering {
		subOffs += 2
	}
	for i := 0; i < subPerLookup; i++ {
		b = be(b, subOffs)
	}
	if markFiltering {
		b = be(b, 0)
	}
	// the shared subtable: format 1, coverage at 6, delta 1; coverage format 1 with glyph 5
	b = be(b, 1)
	b = be(b, 6)
	b = be(b, 1)
	b = be(b, 1)
	b = be(b, 1)
	b = be(b, 5)
	return b
}

// FDSelect3 returns the format 3 encoding of the FDSelect function sel over
// n glyphs (used to locate that structure inside an encoded CFF table).
func FDSelect3(sel func(int) int, n int) []byte {
	var ranges [][2]int
	for i := 0; i < n; i++ {
		fd := sel(i)
		if len(ranges) == 0 || ranges[len(ranges)-1][1] != fd {
			ranges = append(ranges, [2]int{i, fd})
		}
	}
	b := []byte{3, byte(len(ranges) >> 8), byte(len(ranges))}
	for _, r := range ranges {
		b = append(b, byte(r[0]>>8), byte(r[0]), byte(r[1]))
	}
	return append(b, byte(n>>8), byte(n))
}

// RewrapGtab rebuilds the lookup list of an encoded GSUB or GPOS table the
// way other font tools write it (the library's own encoder only does so
// beyond 64 KiB): a tape-chosen subset of the lookups becomes extension
// lookups (type 7 / 9) whose subtable offsets point at 8-byte extension
// records; with share set, one subtable offset of an ordinary lookup is
// pointed at an extension record of another lookup (offsets may be shared
// freely in the format; whether the bytes make sense under both readings is
// for the reader to decide).  It returns the input unchanged (and "") if the
// table does not have the expected layout.
func RewrapGtab(t *tape.Tape, data []byte, gpos, share bool) ([]byte, string) {
	u16 := func(p int) int { return int(data[p])<<8 | int(data[p+1]) }
	if len(data) < 10 {
		return data, ""
	}
	LL := u16(8)
	if LL < 10 || LL < u16(4) || LL < u16(6) || LL+2 > len(data) {
		return data, ""
	}
	extType := 7
	if gpos {
		extType = 9
	}
	n := u16(LL)
	if n == 0 || LL+2+2*n > len(data) {
		return data, ""
	}
	type lk struct {
		tp, flag, mfs int
		subs          []int // absolute positions
	}
	var lks []lk
	starts := map[int]bool{}
	for i := 0; i < n; i++ {
		L := LL + u16(LL+2+2*i)
		if L+6 > len(data) {
			return data, ""
		}
		l := lk{tp: u16(L), flag: u16(L + 2)}
		cnt := u16(L + 4)
		if l.tp == extType || L+6+2*cnt+2 > len(data) {
			return data, ""
		}
		for j := 0; j < cnt; j++ {
			s := L + u16(L+6+2*j)
			if s >= len(data) {
				return data, ""
			}
			l.subs = append(l.subs, s)
			starts[s] = true
		}
		if l.flag&0x0010 != 0 {
			l.mfs = u16(L + 6 + 2*cnt)
		}
		lks = append(lks, l)
	}
	var sorted []int
	for s := range starts {
		sorted = append(sorted, s)
	}
	sort.Ints(sorted)
	// layout of the new lookup list (positions relative to LL)
	wrap := make([]bool, n)
	any := false
	for i := range wrap {
		wrap[i] = t.Chance(1, 2)
		any = any || wrap[i]
	}
	if !any {
		wrap[t.Draw(n)] = true
	}
	pos := 2 + 2*n
	lookupPos := make([]int, n)
	for i, l := range lks {
		lookupPos[i] = pos
		pos += 6 + 2*len(l.subs)
		if l.flag&0x0010 != 0 {
			pos += 2
		}
	}
	extPos := make([][]int, n)
	for i, l := range lks {
		if !wrap[i] {
			continue
		}
		for range l.subs {
			extPos[i] = append(extPos[i], pos)
			pos += 8
		}
	}
	blobPos := map[int]int{}
	for k, s := range sorted {
		end := len(data)
		if k+1 < len(sorted) {
			end = sorted[k+1]
		}
		blobPos[s] = pos
		pos += end - s
	}
	// optional sharing
	shareB, shareJ, shareTo := -1, 0, 0
	note := ""
	if share {
		var bs, as []int
		for i, l := range lks {
			if !wrap[i] && len(l.subs) >= 2 {
				bs = append(bs, i)
			}
			if wrap[i] && len(l.subs) > 0 {
				as = append(as, i)
			}
		}
		if len(bs) > 0 && len(as) > 0 {
			shareB = bs[t.Draw(len(bs))]
			shareJ = 1 + t.Draw(len(lks[shareB].subs)-1)
			a := as[t.Draw(len(as))]
			shareTo = extPos[a][t.Draw(len(extPos[a]))]
			note = fmt.Sprintf("; subtable %d of lookup %d shares its offset with an extension record of lookup %d", shareJ, shareB, a)
		}
	}
	out := append([]byte(nil), data[:LL]...)
	put := func(v int) { out = append(out, byte(v>>8), byte(v)) }
	put(n)
	for i := range lks {
		put(lookupPos[i])
	}
	for i, l := range lks {
		tp := l.tp
		if wrap[i] {
			tp = extType
		}
		put(tp)
		put(l.flag)
		put(len(l.subs))
		for j, s := range l.subs {
			off := blobPos[s] - lookupPos[i]
			if wrap[i] {
				off = extPos[i][j] - lookupPos[i]
			}
			if i == shareB && j == shareJ {
				off = shareTo - lookupPos[i]
			}
			if off < 0 || off > 0xFFFF {
				return data, ""
			}
			put(off)
		}
		if l.flag&0x0010 != 0 {
			put(l.mfs)
		}
	}
	for i, l := range lks {
		if !wrap[i] {
			continue
		}
		for j, s := range l.subs {
			put(1)
			put(l.tp)
			off := blobPos[s] - extPos[i][j]
			out = append(out, byte(off>>24), byte(off>>16), byte(off>>8), byte(off))
		}
	}
	for k, s := range sorted {
		end := len(data)
		if k+1 < len(sorted) {
			end = sorted[k+1]
		}
		out = append(out, data[s:end]...)
	}
	var w []int
	for i := range wrap {
		if wrap[i] {
			w = append(w, i)
		}
	}
	return out, fmt.Sprintf("lookups %v rewritten as extension lookups%s", w, note)
}

// CmapOverlap assembles a cmap table by hand with n+1 encoding records.  The
// first record points at a small subtable at the very end of the table; the
// others (Macintosh platform, languages 1..n, so that all keys differ) point
// into the space in front of it.  With share set they all point at one and
// the same format 6 subtable - legal sharing, as font tools do it.  Without,
// record k points 10 bytes behind record k-1 at a format 6 header of its own
// whose length reaches to the end of the space: n distinct, mutually
// overlapping subtables whose total size is quadratic in the size of the
// table.  The container format says subtables are disjoint or identical; a
// decoder that accepts the second shape hands out (and re-encodes) far more
// than it was given.
func CmapOverlap(n int, share bool) []byte {
	be := func(b []byte, v int) []byte { return append(b, byte(v>>8), byte(v)) }
	be32 := func(b []byte, v int) []byte { return append(b, byte(v>>24), byte(v>>16), byte(v>>8), byte(v)) }
	space := 10*n + 25000
	if space > 65000 {
		space = 65000
	}
	space &^= 1
	hdr := 4 + 8*(n+1)
	var b []byte
	b = be(b, 0)
	b = be(b, n+1)
	// record 0: Unicode platform, at the end
	b = be(b, 0)
	b = be(b, 3)
	b = be32(b, hdr+space)
	for k := 0; k < n; k++ {
		b = be(b, 1) // Macintosh
		b = be(b, 0) // Roman
		if share {
			b = be32(b, hdr)
		} else {
			b = be32(b, hdr+10*k)
		}
	}
	region := make([]byte, 0, space)
	for k := 0; k < n && 10*k+10 <= space; k++ {
		l := space - 10*k
		if share && k > 0 {
			break
		}
		region = be(region, 6)
		region = be(region, l)
		lang := k + 1
		if share {
			lang = 0
		}
		region = be(region, lang)
		region = be(region, 0x20)       // first code
		region = be(region, (l-10)/2) // entry count
	}
	for len(region) < space {
		region = append(region, 0, byte(len(region)%7))
	}
	b = append(b, region[:space]...)
	// the subtable record 0 points at: format 6, no entries
	b = be(b, 6)
	b = be(b, 10)
	b = be(b, 0)
	b = be(b, 0x20)
	b = be(b, 0)
	return b
}
