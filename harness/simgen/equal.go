package simgen

import (
	"fmt"
	"hash/fnv"
	"math"
	"reflect"
	"sort"
	"time"

	"seehuhn.de/go/sfnt"
	"seehuhn.de/go/sfnt/cff"
	"seehuhn.de/go/sfnt/glyph"
)

var timeType = reflect.TypeOf(time.Time{})

// DeepDiff compares two values structurally.  Floats are equal if they agree
// to a relative tolerance tol (or absolutely, near zero); func values are
// skipped (the caller compares them pointwise); nil and empty slices / maps
// are distinguished only if strictNil is set.  It returns the path of the
// first difference, or "".
func DeepDiff(a, b any, tol float64, strictNil bool) string {
	d := &differ{tol: tol, strictNil: strictNil}
	return d.diff(reflect.ValueOf(a), reflect.ValueOf(b), "", 0)
}

type differ struct {
	tol       float64
	strictNil bool
}

func floatEq(x, y, tol float64) bool {
	if x == y || (math.IsNaN(x) && math.IsNaN(y)) {
		return true
	}
	d := math.Abs(x - y)
	if d <= tol {
		return true
	}
	return d <= tol*math.Max(math.Abs(x), math.Abs(y))
}

func (d *differ) diff(a, b reflect.Value, path string, depth int) string {
	if depth > 200 {
		return path + ": nesting too deep"
	}
	if !a.IsValid() || !b.IsValid() {
		if a.IsValid() != b.IsValid() {
			return path + ": one side is nil"
		}
		return ""
	}
	if a.Type() != b.Type() {
		return fmt.Sprintf("%s: type %s vs %s", path, a.Type(), b.Type())
	}
	switch a.Kind() {
	case reflect.Bool:
		if a.Bool() != b.Bool() {
			return fmt.Sprintf("%s: %v vs %v", path, a.Bool(), b.Bool())
		}
	case reflect.Int, reflect.Int8, reflect.Int16, reflect.Int32, reflect.Int64:
		if a.Int() != b.Int() {
			return fmt.Sprintf("%s: %d vs %d", path, a.Int(), b.Int())
		}
	case reflect.Uint, reflect.Uint8, reflect.Uint16, reflect.Uint32, reflect.Uint64, reflect.Uintptr:
		if a.Uint() != b.Uint() {
			return fmt.Sprintf("%s: %d vs %d", path, a.Uint(), b.Uint())
		}
	case reflect.Float32, reflect.Float64:
		if !floatEq(a.Float(), b.Float(), d.tol) {
			return fmt.Sprintf("%s: %v vs %v", path, a.Float(), b.Float())
		}
	case reflect.String:
		if a.String() != b.String() {
			return fmt.Sprintf("%s: %q vs %q", path, a.String(), b.String())
		}
	case reflect.Func:
		if a.IsNil() != b.IsNil() {
			return path + ": func nil vs non-nil"
		}
	case reflect.Ptr:
		if a.IsNil() || b.IsNil() {
			if a.IsNil() != b.IsNil() {
				return path + ": nil vs non-nil pointer"
			}
			return ""
		}
		if a.Pointer() == b.Pointer() {
			return ""
		}
		return d.diff(a.Elem(), b.Elem(), path, depth+1)
	case reflect.Interface:
		if a.IsNil() || b.IsNil() {
			if a.IsNil() != b.IsNil() {
				return path + ": nil vs non-nil interface"
			}
			return ""
		}
		return d.diff(a.Elem(), b.Elem(), path, depth+1)
	case reflect.Struct:
		if a.Type() == timeType {
			ta, tb := a.Interface().(time.Time), b.Interface().(time.Time)
			if !ta.Equal(tb) {
				return fmt.Sprintf("%s: %v vs %v", path, ta, tb)
			}
			return ""
		}
		for i := 0; i < a.NumField(); i++ {
			f := a.Type().Field(i)
			if !f.IsExported() {
				// unexported fields of foreign types (language.Tag ...): compare via %v
				continue
			}
			if r := d.diff(a.Field(i), b.Field(i), path+"."+f.Name, depth+1); r != "" {
				return r
			}
		}
		if a.NumField() > 0 && !a.Type().Field(0).IsExported() && a.CanInterface() {
			sa, sb := fmt.Sprint(a.Interface()), fmt.Sprint(b.Interface())
			if sa != sb {
				return fmt.Sprintf("%s: %s vs %s", path, sa, sb)
			}
		}
	case reflect.Array:
		for i := 0; i < a.Len(); i++ {
			if r := d.diff(a.Index(i), b.Index(i), fmt.Sprintf("%s[%d]", path, i), depth+1); r != "" {
				return r
			}
		}
	case reflect.Slice:
		if d.strictNil && a.IsNil() != b.IsNil() {
			return path + ": nil vs empty slice"
		}
		if a.Len() != b.Len() {
			return fmt.Sprintf("%s: length %d vs %d", path, a.Len(), b.Len())
		}
		if a.Len() == 0 || a.Pointer() == b.Pointer() {
			return ""
		}
		if a.Type().Elem().Kind() == reflect.Uint8 {
			ba, bb := a.Bytes(), b.Bytes()
			for i := range ba {
				if ba[i] != bb[i] {
					return fmt.Sprintf("%s[%d]: %#x vs %#x", path, i, ba[i], bb[i])
				}
			}
			return ""
		}
		for i := 0; i < a.Len(); i++ {
			if r := d.diff(a.Index(i), b.Index(i), fmt.Sprintf("%s[%d]", path, i), depth+1); r != "" {
				return r
			}
		}
	case reflect.Map:
		if d.strictNil && a.IsNil() != b.IsNil() {
			return path + ": nil vs empty map"
		}
		if a.Len() != b.Len() {
			return fmt.Sprintf("%s: map size %d vs %d", path, a.Len(), b.Len())
		}
		if a.Len() == 0 || a.Pointer() == b.Pointer() {
			return ""
		}
		// deterministic order of reporting: sort keys by their printed form
		keys := a.MapKeys()
		var first string
		for _, k := range keys {
			bv := b.MapIndex(k)
			kp := fmt.Sprintf("%s[%v]", path, k.Interface())
			var r string
			if !bv.IsValid() {
				r = kp + ": key missing on one side"
			} else {
				r = d.diff(a.MapIndex(k), bv, kp, depth+1)
			}
			if r != "" && (first == "" || r < first) {
				first = r
			}
		}
		return first
	case reflect.Chan, reflect.UnsafePointer:
		if a.Pointer() != b.Pointer() {
			return path + ": different channel/pointer"
		}
	default:
		return fmt.Sprintf("%s: unsupported kind %s", path, a.Kind())
	}
	return ""
}

// FontDiff compares two fonts; floats to relative 1e-8 ("to the precision of
// the file format", as the repository's own comparison does); FDSelect
// functions are compared pointwise.  It returns the path of the first
// difference or "".
func FontDiff(a, b *sfnt.Font) string {
	if a == nil || b == nil {
		if a != b {
			return "font: nil vs non-nil"
		}
		return ""
	}
	if r := DeepDiff(a, b, 1e-8, false); r != "" {
		return "Font" + r
	}
	oa, okA := a.Outlines.(*cff.Outlines)
	ob, okB := b.Outlines.(*cff.Outlines)
	if okA && okB && oa.FDSelect != nil && ob.FDSelect != nil {
		for gid := 0; gid < len(oa.Glyphs); gid++ {
			if x, y := oa.FDSelect(glyph.ID(gid)), ob.FDSelect(glyph.ID(gid)); x != y {
				return fmt.Sprintf("Font.Outlines.FDSelect(%d): %d vs %d", gid, x, y)
			}
		}
	}
	return ""
}

// Digest returns a 64-bit structural digest of v (exact: floats by bit
// pattern; maps in sorted key order; func values by nil-ness only).
func Digest(v any) uint64 {
	h := fnv.New64a()
	digest(h, reflect.ValueOf(v), 0)
	return h.Sum64()
}

type hasher interface{ Write([]byte) (int, error) }

func put(h hasher, x uint64) {
	var b [8]byte
	for i := range b {
		b[i] = byte(x >> (8 * i))
	}
	h.Write(b[:])
}

func digest(h hasher, v reflect.Value, depth int) {
	if !v.IsValid() || depth > 200 {
		put(h, 0xdead)
		return
	}
	switch v.Kind() {
	case reflect.Bool:
		if v.Bool() {
			put(h, 1)
		} else {
			put(h, 2)
		}
	case reflect.Int, reflect.Int8, reflect.Int16, reflect.Int32, reflect.Int64:
		put(h, uint64(v.Int()))
	case reflect.Uint, reflect.Uint8, reflect.Uint16, reflect.Uint32, reflect.Uint64, reflect.Uintptr:
		put(h, v.Uint())
	case reflect.Float32, reflect.Float64:
		put(h, math.Float64bits(v.Float()))
	case reflect.String:
		put(h, uint64(v.Len()))
		h.Write([]byte(v.String()))
	case reflect.Func:
		if v.IsNil() {
			put(h, 3)
		} else {
			put(h, 4)
		}
	case reflect.Ptr, reflect.Interface:
		if v.IsNil() {
			put(h, 5)
			return
		}
		put(h, 6)
		digest(h, v.Elem(), depth+1)
	case reflect.Struct:
		if v.Type() == timeType && v.CanInterface() {
			put(h, uint64(v.Interface().(time.Time).UnixNano()))
			return
		}
		exported := false
		for i := 0; i < v.NumField(); i++ {
			if v.Type().Field(i).IsExported() {
				exported = true
				digest(h, v.Field(i), depth+1)
			}
		}
		if !exported && v.CanInterface() {
			s := fmt.Sprint(v.Interface())
			put(h, uint64(len(s)))
			h.Write([]byte(s))
		}
	case reflect.Array:
		for i := 0; i < v.Len(); i++ {
			digest(h, v.Index(i), depth+1)
		}
	case reflect.Slice:
		put(h, uint64(v.Len()))
		if v.Type().Elem().Kind() == reflect.Uint8 {
			h.Write(v.Bytes())
			return
		}
		for i := 0; i < v.Len(); i++ {
			digest(h, v.Index(i), depth+1)
		}
	case reflect.Map:
		put(h, uint64(v.Len()))
		type kv struct {
			k uint64
			v reflect.Value
		}
		var all []kv
		iter := v.MapRange()
		for iter.Next() {
			kh := fnv.New64a()
			digest(kh, iter.Key(), depth+1)
			all = append(all, kv{kh.Sum64(), iter.Value()})
		}
		sort.Slice(all, func(i, j int) bool { return all[i].k < all[j].k })
		for _, e := range all {
			put(h, e.k)
			digest(h, e.v, depth+1)
		}
	default:
		put(h, 7)
	}
}

// FontDigest is Digest plus the pointwise values of FDSelect.
func FontDigest(f *sfnt.Font) uint64 {
	d := Digest(f)
	if o, ok := f.Outlines.(*cff.Outlines); ok && o.FDSelect != nil {
		h := fnv.New64a()
		put(h, d)
		for gid := range o.Glyphs {
			put(h, uint64(o.FDSelect(glyph.ID(gid))))
		}
		d = h.Sum64()
	}
	return d
}
