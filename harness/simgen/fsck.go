package simgen

import (
	"encoding/binary"
	"fmt"
	"sort"
)

// DirEntry is one record of an sfnt table directory as read by Fsck.
type DirEntry struct {
	Tag      string
	Checksum uint32
	Offset   uint32
	Length   uint32
}

// Container is the result of an independent walk over an sfnt file.
type Container struct {
	Scaler  uint32
	Entries []DirEntry
	// EndOfTables is the end (exclusive) of the last table's data.
	EndOfTables int64
}

func tableSum(b []byte) uint32 {
	var sum uint32
	for i := 0; i+4 <= len(b); i += 4 {
		sum += binary.BigEndian.Uint32(b[i:])
	}
	if r := len(b) % 4; r != 0 {
		var last [4]byte
		copy(last[:], b[len(b)-r:])
		sum += binary.BigEndian.Uint32(last[:])
	}
	return sum
}

// ParseDirectory reads the table directory without judging it (used to find
// table boundaries in reference files).
func ParseDirectory(b []byte) (*Container, error) {
	if len(b) < 12 {
		return nil, fmt.Errorf("file shorter than the 12-byte offset table")
	}
	c := &Container{Scaler: binary.BigEndian.Uint32(b)}
	n := int(binary.BigEndian.Uint16(b[4:]))
	if len(b) < 12+16*n {
		return nil, fmt.Errorf("directory of %d records does not fit into %d bytes", n, len(b))
	}
	for i := 0; i < n; i++ {
		r := b[12+16*i:]
		e := DirEntry{Tag: string(r[:4]), Checksum: binary.BigEndian.Uint32(r[4:]),
			Offset: binary.BigEndian.Uint32(r[8:]), Length: binary.BigEndian.Uint32(r[12:])}
		c.Entries = append(c.Entries, e)
		if end := int64(e.Offset) + int64(e.Length); end > c.EndOfTables {
			c.EndOfTables = end
		}
	}
	return c, nil
}

// Fsck checks that b is a well-formed sfnt container holding exactly the
// given tables (nil values = not written).  It is written from the OpenType
// specification ("Organization of an OpenType font", "Calculating checksums")
// and shares no code with the repository.  It returns a short location
// string (for the fingerprint) and a message, or "" if everything is right.
func Fsck(b []byte, scaler uint32, tables map[string][]byte) (where, msg string) {
	if tables == nil {
		// structure-only mode: take the table contents from the file itself
		c, err := ParseDirectory(b)
		if err != nil {
			return "header", err.Error()
		}
		tables = map[string][]byte{}
		for _, e := range c.Entries {
			end := int64(e.Offset) + int64(e.Length)
			if end > int64(len(b)) {
				return "directory/bounds", fmt.Sprintf("table %q [%d,+%d) extends beyond the file (%d bytes)", e.Tag, e.Offset, e.Length, len(b))
			}
			if _, dup := tables[e.Tag]; dup {
				return "directory/order", fmt.Sprintf("tag %q occurs twice", e.Tag)
			}
			tables[e.Tag] = b[e.Offset:end:end]
		}
	}
	want := 0
	for tag, data := range tables {
		if data != nil && len(tag) == 4 {
			want++
		}
	}
	if len(b) < 12 {
		return "header", fmt.Sprintf("file has %d bytes, shorter than the offset table", len(b))
	}
	if got := binary.BigEndian.Uint32(b); got != scaler {
		return "header/sfntVersion", fmt.Sprintf("sfntVersion %#x, want %#x", got, scaler)
	}
	n := int(binary.BigEndian.Uint16(b[4:]))
	if n != want {
		return "header/numTables", fmt.Sprintf("numTables = %d but %d tables were written", n, want)
	}
	// binary search fields by definition
	es := 0
	for (1 << (es + 1)) <= n {
		es++
	}
	if n == 0 {
		es = 0
	}
	sr := 16 * (1 << es)
	rs := 16*n - sr
	if n > 0 {
		if got := int(binary.BigEndian.Uint16(b[6:])); got != sr {
			return "header/searchRange", fmt.Sprintf("searchRange = %d, want %d for %d tables", got, sr, n)
		}
		if got := int(binary.BigEndian.Uint16(b[8:])); got != es {
			return "header/entrySelector", fmt.Sprintf("entrySelector = %d, want %d for %d tables", got, es, n)
		}
		if got := int(binary.BigEndian.Uint16(b[10:])); got != rs {
			return "header/rangeShift", fmt.Sprintf("rangeShift = %d, want %d for %d tables", got, rs, n)
		}
	}
	if len(b) < 12+16*n {
		return "directory", fmt.Sprintf("directory of %d records does not fit into %d bytes", n, len(b))
	}
	c, _ := ParseDirectory(b)
	type span struct {
		from, to int64
		tag      string
	}
	var spans []span
	prev := ""
	seen := map[string]bool{}
	hasHead := false
	for i, e := range c.Entries {
		if i > 0 && !(prev < e.Tag) {
			return "directory/order", fmt.Sprintf("record %d (%q) does not sort strictly after %q", i, e.Tag, prev)
		}
		prev = e.Tag
		data, ok := tables[e.Tag]
		if !ok || data == nil {
			return "directory/tag", fmt.Sprintf("record %d has tag %q which was not written", i, e.Tag)
		}
		seen[e.Tag] = true
		if e.Offset%4 != 0 {
			return "directory/alignment", fmt.Sprintf("table %q at offset %d is not 4-byte aligned", e.Tag, e.Offset)
		}
		if int64(e.Offset) < int64(12+16*n) {
			return "directory/offset", fmt.Sprintf("table %q at offset %d lies inside the directory", e.Tag, e.Offset)
		}
		if int64(e.Offset)+int64(e.Length) > int64(len(b)) {
			return "directory/bounds", fmt.Sprintf("table %q [%d,+%d) extends beyond the file (%d bytes)", e.Tag, e.Offset, e.Length, len(b))
		}
		if int(e.Length) != len(data) {
			return "directory/length", fmt.Sprintf("table %q has length %d, %d bytes were written", e.Tag, e.Length, len(data))
		}
		got := b[e.Offset : e.Offset+e.Length]
		if e.Tag == "head" && len(data) >= 12 {
			hasHead = true
			// compare everything except checkSumAdjustment
			for j := range got {
				if j >= 8 && j < 12 {
					continue
				}
				if got[j] != data[j] {
					return "table/content", fmt.Sprintf("table %q differs from what was written at byte %d", e.Tag, j)
				}
			}
			tmp := append([]byte(nil), got...)
			copy(tmp[8:12], []byte{0, 0, 0, 0})
			if s := tableSum(tmp); s != e.Checksum {
				return "directory/checksum", fmt.Sprintf("checksum of %q is %#x, directory says %#x", e.Tag, s, e.Checksum)
			}
		} else {
			for j := range got {
				if got[j] != data[j] {
					return "table/content", fmt.Sprintf("table %q differs from what was written at byte %d", e.Tag, j)
				}
			}
			if s := tableSum(got); s != e.Checksum {
				return "directory/checksum", fmt.Sprintf("checksum of %q is %#x, directory says %#x", e.Tag, s, e.Checksum)
			}
		}
		spans = append(spans, span{int64(e.Offset), int64(e.Offset) + int64(e.Length), e.Tag})
	}
	for tag, data := range tables {
		if data != nil && len(tag) == 4 && !seen[tag] {
			return "directory/missing", fmt.Sprintf("table %q was written but has no directory record", tag)
		}
	}
	sort.Slice(spans, func(i, j int) bool {
		if spans[i].from != spans[j].from {
			return spans[i].from < spans[j].from
		}
		return spans[i].to < spans[j].to
	})
	pos := int64(12 + 16*n)
	for _, s := range spans {
		if s.from < pos {
			return "layout/overlap", fmt.Sprintf("table %q at %d overlaps the preceding data ending at %d", s.tag, s.from, pos)
		}
		if s.from-pos > 3 {
			return "layout/gap", fmt.Sprintf("%d unused bytes before table %q", s.from-pos, s.tag)
		}
		for _, x := range b[pos:s.from] {
			if x != 0 {
				return "layout/padding", fmt.Sprintf("non-zero padding before table %q", s.tag)
			}
		}
		pos = s.to
	}
	if int64(len(b))-pos > 3 {
		return "layout/tail", fmt.Sprintf("%d bytes after the last table", int64(len(b))-pos)
	}
	for _, x := range b[pos:] {
		if x != 0 {
			return "layout/padding", "non-zero padding after the last table"
		}
	}
	// (whether the last table is padded is not judged: the statement only
	// asks for tables inside the file on 4-byte boundaries)
	if hasHead {
		if s := tableSum(b); s != 0xB1B0AFBA {
			return "checksum/file", fmt.Sprintf("whole-file checksum is %#x, want 0xB1B0AFBA", s)
		}
	}
	return "", ""
}

// FsckLoca checks the glyph location table of a TrueType-flavoured file
// against the OpenType specification ("loca": numGlyphs+1 offsets in the
// format head.indexToLocFormat names, in ascending order, the last one the
// end of the glyph data), using nothing but the table directory.  Files
// without the four tables involved are not judged.
func FsckLoca(file []byte) (where, msg string) {
	dir, err := ParseDirectory(file)
	if err != nil {
		return "", ""
	}
	tab := map[string][]byte{}
	for _, e := range dir.Entries {
		if uint64(e.Offset)+uint64(e.Length) <= uint64(len(file)) {
			tab[e.Tag] = file[e.Offset : e.Offset+e.Length]
		}
	}
	head, maxp, loca, glyfData := tab["head"], tab["maxp"], tab["loca"], tab["glyf"]
	if len(head) < 54 || len(maxp) < 6 || loca == nil || tab["glyf"] == nil && len(loca) == 0 {
		return "", ""
	}
	format := int(head[50])<<8 | int(head[51])
	n := int(maxp[4])<<8 | int(maxp[5])
	size := 2
	switch format {
	case 0:
	case 1:
		size = 4
	default:
		return "loca/format", fmt.Sprintf("head.indexToLocFormat is %d", format)
	}
	if len(loca) < (n+1)*size {
		return "loca/length", fmt.Sprintf("loca has %d bytes, %d glyphs in format %d need %d", len(loca), n, format, (n+1)*size)
	}
	prev := 0
	for i := 0; i <= n; i++ {
		var off int
		if size == 2 {
			off = 2 * (int(loca[2*i])<<8 | int(loca[2*i+1]))
		} else {
			off = int(loca[4*i])<<24 | int(loca[4*i+1])<<16 | int(loca[4*i+2])<<8 | int(loca[4*i+3])
		}
		if off < prev {
			return "loca/order", fmt.Sprintf("loca entry %d is %d, the entry before is %d (offsets must ascend; glyf has %d bytes, format %d)", i, off, prev, len(glyfData), format)
		}
		if off > len(glyfData) {
			return "loca/range", fmt.Sprintf("loca entry %d is %d, glyf has %d bytes", i, off, len(glyfData))
		}
		prev = off
	}
	return "", ""
}
