// Worker for C03: an on-disk invariant ("fsck") evaluated after every
// acknowledged write, under varied map iteration order.
package main

import (
	"bytes"
	"fmt"
	"sort"
	"strings"

	xsfnt "golang.org/x/image/font/sfnt"
	"golang.org/x/image/math/fixed"

	"seehuhn.de/go/sfnt"
	"seehuhn.de/go/sfnt/cff"
	"seehuhn.de/go/sfnt/glyf"
	"seehuhn.de/go/sfnt/glyph"
	"seehuhn.de/go/sfnt/header"
	"seehuhn.de/go/sfnt/zzverif/simgen"
	"seehuhn.de/go/sfnt/zzverif/simhook"
	"seehuhn.de/go/sfnt/zzverif/simio"
	"seehuhn.de/go/sfnt/zzverif/tape"
	"seehuhn.de/go/sfnt/zzverif/wk"
)

var knownTags = []string{"head", "hhea", "maxp", "OS/2", "hmtx", "LTSH", "VDMX", "hdmx", "cmap", "fpgm", "prep", "cvt ",
	"loca", "glyf", "kern", "name", "post", "gasp", "DSIG", "GSUB", "GPOS", "GDEF", "CFF ", "BASE", "vhea", "vmtx"}

func genTag(t *tape.Tape) string {
	if t.Chance(2, 3) {
		return knownTags[t.Draw(len(knownTags))]
	}
	b := make([]byte, 4)
	for i := range b {
		b[i] = byte(0x20 + t.Draw(0x7f-0x20))
	}
	return string(b)
}

func genLen(t *tape.Tape) int {
	switch t.Weighted(4, 4, 2, 1) {
	case 0:
		return t.Range(0, 9)
	case 1:
		return 4*t.Range(0, 40) + t.Range(0, 3)
	case 2:
		return t.Range(0, 600)
	default:
		return t.Range(0, 5000)
	}
}

func orders(t *tape.Tape) []uint64 {
	return []uint64{0, 1, 2 + uint64(t.Draw(1000)), 2 + uint64(t.Draw(1000000))}
}

// cloneTables copies the tables; spare capacity (and the bytes in it) is
// copied too, so that a clone is laid out in memory like the original.
func cloneTables(m map[string][]byte) map[string][]byte {
	res := make(map[string][]byte, len(m))
	for k, v := range m {
		if v == nil {
			res[k] = nil
		} else {
			full := append([]byte{}, v[:cap(v)]...)
			res[k] = full[:len(v)]
		}
	}
	return res
}

func runRaw(c *wk.Case) {
	t := c.T
	scaler := []uint32{header.ScalerTypeTrueType, header.ScalerTypeCFF, header.ScalerTypeApple}[t.Draw(3)]
	n := t.Range(1, 12)
	if t.Chance(1, 8) {
		n = t.Range(13, 140)
	}
	tables := map[string][]byte{}
	nonNil := 0
	// in a third of the cases all tables are sub-slices of one packed buffer:
	// the capacity of each slice extends over the bytes of its neighbours
	var packed []byte
	if t.Chance(1, 3) {
		packed = t.Bytes(n*700 + 64)
		for i := range packed {
			packed[i] |= 1
		}
	}
	carve := func(l int) []byte {
		if packed == nil || l > len(packed) {
			if l == 0 {
				return []byte{}
			}
			return t.Bytes(l)
		}
		b := packed[:l]
		packed = packed[l:]
		return b
	}
	for i := 0; i < n; i++ {
		tag := genTag(t)
		if i >= 20 {
			tag = fmt.Sprintf("%c%c%02d", 'A'+byte(i%26), 'a'+byte(i/26), i%100)
		}
		if _, dup := tables[tag]; dup {
			continue
		}
		if tag == "head" {
			tables[tag] = carve(t.Range(54, 60))
			nonNil++
			continue
		}
		if t.Chance(1, 10) {
			tables[tag] = nil
			c.Count("nil_tables", 1)
			continue
		}
		l := genLen(t)
		if packed != nil && l > 600 {
			l = l % 600
		}
		tables[tag] = carve(l)
		nonNil++
	}
	if nonNil == 0 {
		tables["dflt"] = []byte{1, 2, 3}
	}
	_, hasHead := tables["head"]
	var tags []string
	for tag, d := range tables {
		if d == nil {
			tags = append(tags, tag+"=nil")
		} else {
			tags = append(tags, fmt.Sprintf("%s=%d", tag, len(d)))
		}
	}
	sort.Strings(tags)
	c.Sample = map[string]any{"kind": "header.Write of a raw table map", "scaler": fmt.Sprintf("%#x", scaler), "tables": tags}
	c.Logf("header.Write scaler=%#x tables=%v", scaler, tags)
	c.SigString(strings.Join(tags, ","))
	c.Sig(uint64(scaler))
	c.Class(fmt.Sprintf("raw|tables=%s|head=%v|nil=%v", bucket(nonNil), hasHead, nonNil != len(tables)))

	var first []byte
	var lastIn map[string][]byte
	for oi, ord := range orders(t) {
		in := cloneTables(tables)
		w := simio.NewWriter()
		var nret int64
		var err error
		simhook.OrderID = ord
		pi := c.Guard(func() { nret, err = header.Write(w, scaler, in) })
		simhook.OrderID = 0
		if pi != nil {
			c.FailPanic("header.Write", pi)
		}
		c.Count("writes", 1)
		if err != nil {
			c.Fail("write-error", "header.Write", "header.Write failed on a fault-free writer: %v", err)
		}
		if nret != int64(len(w.Disk)) {
			c.Fail("write-count", "header.Write", "returned count %d, file has %d bytes", nret, len(w.Disk))
		}
		if where, msg := simgen.Fsck(w.Disk, scaler, in); where != "" {
			c.Fail("fsck", "header.Write/"+where, "%s (map order %d; tables %v)", msg, ord, tags)
		}
		readBack(c, "header.Write", w.Disk, scaler, in)
		if oi == 0 {
			first = w.Disk
		} else if !bytes.Equal(first, w.Disk) {
			c.Count("order_dependent_bytes_seen_(judged_under_C01)", 1)
		}
		lastIn = in
	}

	// ---- history: the table map that has just been written is changed in
	// place (same slices, same lengths, other bytes - a program that patches a
	// table and writes the font again) and written a second time; the second
	// file must be well-formed for the bytes it was given then
	if t.Chance(1, 3) {
		changed := 0
		var tagsSorted []string
		for tag := range lastIn {
			tagsSorted = append(tagsSorted, tag)
		}
		sort.Strings(tagsSorted)
		for _, tag := range tagsSorted {
			d := lastIn[tag]
			if len(d) == 0 || !t.Chance(1, 2) {
				continue
			}
			for k := 1 + t.Draw(3); k > 0; k-- {
				d[t.Draw(len(d))] ^= byte(1 + t.Draw(255))
			}
			changed++
		}
		if changed > 0 {
			w := simio.NewWriter()
			var nret int64
			var err error
			pi := c.Guard(func() { nret, err = header.Write(w, scaler, lastIn) })
			if pi != nil {
				c.FailPanic("header.Write(second write)", pi)
			}
			c.Count("writes", 1)
			c.Count("second_writes_after_in-place_change", 1)
			if err != nil {
				c.Fail("write-error", "header.Write/second-write", "header.Write failed on a fault-free writer: %v", err)
			}
			if nret != int64(len(w.Disk)) {
				c.Fail("write-count", "header.Write/second-write", "returned count %d, file has %d bytes", nret, len(w.Disk))
			}
			if where, msg := simgen.Fsck(w.Disk, scaler, lastIn); where != "" {
				c.Fail("fsck", "header.Write/second-write/"+where, "%s (after %d tables were changed in place and the same map was written again; tables %v)", msg, changed, tags)
			}
			readBack(c, "header.Write(second write)", w.Disk, scaler, lastIn)
		}
	}
}

func bucket(n int) string {
	switch {
	case n <= 1:
		return "1"
	case n <= 4:
		return "2-4"
	case n <= 16:
		return "5-16"
	}
	return ">16"
}

func firstDiff(a, b []byte) int {
	for i := 0; i < len(a) && i < len(b); i++ {
		if a[i] != b[i] {
			return i
		}
	}
	if len(a) < len(b) {
		return len(a)
	}
	return len(b)
}

// readBack checks that header.Read + ReadTableBytes return exactly the
// tables that were written (tables == nil: only that reading works and is
// consistent with the directory).
func readBack(c *wk.Case, what string, b []byte, scaler uint32, tables map[string][]byte) {
	r := bytes.NewReader(b)
	var dir *header.Info
	var err error
	if pi := c.Guard(func() { dir, err = header.Read(r) }); pi != nil {
		c.FailPanic("header.Read", pi)
	}
	if err != nil {
		c.Fail("read-back", what+"/header.Read", "header.Read rejects the file just written: %v", err)
	}
	if dir.ScalerType != scaler {
		c.Fail("read-back", what+"/scaler", "scaler type %#x read back as %#x", scaler, dir.ScalerType)
	}
	if tables == nil {
		for tag := range dir.Toc {
			if _, err := dir.ReadTableBytes(r, tag); err != nil {
				c.Fail("read-back", what+"/ReadTableBytes", "table %q cannot be read back: %v", tag, err)
			}
		}
		return
	}
	want := 0
	for tag, data := range tables {
		if data == nil {
			if _, ok := dir.Toc[tag]; ok {
				c.Fail("read-back", what+"/nil-table", "table %q was nil (not to be written) but is in the directory", tag)
			}
			continue
		}
		want++
		got, err := dir.ReadTableBytes(r, tag)
		if err != nil {
			c.Fail("read-back", what+"/ReadTableBytes", "table %q cannot be read back: %v", tag, err)
		}
		if !bytes.Equal(got, data) {
			c.Fail("read-back", what+"/content", "table %q read back differs from what was written (first difference at byte %d)", tag, firstDiff(got, data))
		}
	}
	if len(dir.Toc) != want {
		c.Fail("read-back", what+"/count", "%d tables written, %d in the directory read back", want, len(dir.Toc))
	}
}

func runFont(c *wk.Case) {
	t := c.T
	kind := simgen.Kind(t.Draw(3))
	f := simgen.GenFont(t, kind, t.Weighted(4, 1))
	if o, ok := f.Outlines.(*glyf.Outlines); ok && t.Chance(1, 20) {
		// a "glyf" table whose size is at the limit of the short "loca" format
		if simgen.PadGlyfTo(t, o, simgen.LocaEdges[t.Draw(len(simgen.LocaEdges))]) {
			c.Count("fonts_with_glyf_size_at_the_short_loca_limit", 1)
		}
	}
	if t.Chance(1, 2) {
		simgen.AddLayoutTables(t, f)
	}
	if f.CreationTime.IsZero() && f.ModificationTime.IsZero() {
		f.ModificationTime = f.ModificationTime.AddDate(40, 0, 0)
	}
	op := t.Draw(2)
	scaler := header.ScalerTypeTrueType
	if kind != simgen.KindTrueType {
		scaler = header.ScalerTypeCFF
	}
	opName := "Write"
	if op == 1 {
		if kind == simgen.KindTrueType {
			opName = "WriteTrueTypePDF"
		} else {
			opName = "WriteOpenTypeCFFPDF"
		}
	}
	var extra []any
	if opName == "WriteTrueTypePDF" && t.Chance(1, 2) {
		extra = append(extra, "cvt ", t.Bytes(t.Range(1, 9)), "xtra", t.Bytes(t.Range(0, 7)))
	}
	c.Sample = map[string]any{"kind": "full font write", "operation": opName, "outlines": kind.String(), "glyphs": f.NumGlyphs(),
		"gsub": f.Gsub != nil, "gpos": f.Gpos != nil, "gdef": f.Gdef != nil, "extra_tables": len(extra) / 2}
	c.Logf("%s of a %s font with %d glyphs", opName, kind, f.NumGlyphs())
	c.SigString(opName)
	c.Sig(uint64(kind), uint64(f.NumGlyphs()), simgen.FontDigest(f))
	c.Class(fmt.Sprintf("font|%s|%s|layout=%v", opName, kind, f.Gsub != nil || f.Gpos != nil))
	var first []byte
	for oi, ord := range orders(t)[:3] {
		w := simio.NewWriter()
		var nret int64 = -1
		var err error
		simhook.OrderID = ord
		pi := c.Guard(func() {
			switch opName {
			case "Write":
				nret, err = f.Write(w)
			case "WriteTrueTypePDF":
				nret, err = f.WriteTrueTypePDF(w, extra...)
			default:
				err = f.WriteOpenTypeCFFPDF(w)
			}
		})
		simhook.OrderID = 0
		if pi != nil {
			c.FailPanic(opName, pi)
		}
		c.Count("writes", 1)
		if err != nil {
			c.Fail("write-error", opName, "%s failed on a fault-free writer: %v", opName, err)
		}
		if nret >= 0 && nret != int64(len(w.Disk)) {
			c.Fail("write-count", opName, "returned count %d, file has %d bytes", nret, len(w.Disk))
		}
		if where, msg := simgen.Fsck(w.Disk, scaler, nil); where != "" {
			c.Fail("fsck", opName+"/"+where, "%s (map order %d)", msg, ord)
		}
		if where, msg := simgen.FsckLoca(w.Disk); where != "" {
			c.Fail("fsck", opName+"/"+where, "%s (map order %d)", msg, ord)
		}
		// the outline tables of the file's flavour come as a set: TrueType
		// outlines are "glyf" plus "loca", CFF outlines are "CFF "
		if dir, err := simgen.ParseDirectory(w.Disk); err == nil {
			has := map[string]bool{}
			for _, e := range dir.Entries {
				has[e.Tag] = true
			}
			_, isGlyf := f.Outlines.(*glyf.Outlines)
			switch {
			case isGlyf && opName != "WriteOpenTypeCFFPDF" && (!has["glyf"] || !has["loca"]):
				c.Fail("fsck", opName+"/outline-tables", "TrueType outlines, but the file has glyf=%v loca=%v", has["glyf"], has["loca"])
			case !isGlyf && !has["CFF "]:
				c.Fail("fsck", opName+"/outline-tables", "CFF outlines, but the file has no \"CFF \" table")
			}
		}
		if oi == 0 {
			first = w.Disk
			readBack(c, opName, w.Disk, scaler, nil)
			if len(extra) > 0 {
				dir, _ := header.Read(bytes.NewReader(w.Disk))
				for i := 0; i+1 < len(extra); i += 2 {
					got, err := dir.ReadTableBytes(bytes.NewReader(w.Disk), extra[i].(string))
					if err != nil || !bytes.Equal(got, extra[i+1].([]byte)) {
						c.Fail("read-back", opName+"/extra-table", "extra table %q does not read back as given (err %v)", extra[i], err)
					}
				}
			}
			if opName == "Write" {
				independent(c, f, w.Disk)
			}
		} else if !bytes.Equal(first, w.Disk) {
			// byte reproducibility across map orders is C01's clause, not
			// C03's: counted here, judged there
			c.Count("order_dependent_bytes_seen_(judged_under_C01)", 1)
		}
	}
}

// refCmap compares the character mapping of the written file, decoded by the
// harness's own specification-conforming decoder, with the font's mapping.
func refCmap(c *wk.Case, f *sfnt.Font, b []byte) {
	best, _ := f.CMapTable.GetBest()
	if best == nil {
		return
	}
	dir, err := simgen.ParseDirectory(b)
	if err != nil {
		return
	}
	var table []byte
	for _, e := range dir.Entries {
		if e.Tag == "cmap" {
			table = b[e.Offset : e.Offset+e.Length]
		}
	}
	if table == nil {
		c.Fail("independent-cmap", "missing", "the font has a character map but the written file has no cmap table")
	}
	ref, err := simgen.NewRefCmap(table)
	if err != nil {
		c.Count("refcmap_declined", 1)
		c.Class("refcmap-declined: " + err.Error())
		return
	}
	lo, hi := best.CodeRange()
	check := func(r rune) {
		if r < 0 || r > 0x10FFFF {
			return
		}
		got, err := ref.Lookup(r)
		if err != nil {
			c.Fail("independent-cmap", "malformed", "reference decoder: %v (rune %U)", err, r)
		}
		if want := best.Lookup(r); glyph.ID(got) != want {
			c.Fail("independent-cmap", "GlyphIndex", "rune %U: a specification-conforming decoder of the written cmap table gives glyph %d, the font maps it to %d", r, got, want)
		}
	}
	if hi-lo < 1500 {
		for r := lo - 1; r <= hi+1; r++ {
			check(r)
		}
	} else {
		for i := 0; i < 600; i++ {
			check(lo + rune(c.T.Draw(int(hi-lo)+1)))
		}
		for r := lo - 1; r < lo+300; r++ {
			check(r)
		}
		for r := hi - 300; r <= hi+1; r++ {
			check(r)
		}
	}
	c.Count("refcmap_fonts_checked", 1)
}

// independent compares with golang.org/x/image/font/sfnt (incidental oracle).
func independent(c *wk.Case, f *sfnt.Font, b []byte) {
	refCmap(c, f, b)
	var xf *xsfnt.Font
	var err error
	if pi := c.Guard(func() { xf, err = xsfnt.Parse(b) }); pi != nil {
		c.Count("ximage_panic", 1)
		return
	}
	if err != nil {
		c.Count("ximage_declined", 1)
		c.Class("ximage-declined: " + err.Error())
		// two reasons are properties of the generated font value, not of the
		// writer: no character map at all, and TrueType outlines without the
		// version-1.0 maxp data (Outlines.Maxp == nil)
		_, isGlyf := f.Outlines.(*glyf.Outlines)
		benign := strings.Contains(err.Error(), "cmap") && f.CMapTable == nil ||
			strings.Contains(err.Error(), "maxp") && isGlyf && f.Outlines.(*glyf.Outlines).Maxp == nil ||
			strings.Contains(err.Error(), "unsupported") || strings.Contains(err.Error(), "not supported")
		if !benign {
			c.Fail("independent-parser", "rejects-file", "golang.org/x/image/font/sfnt rejects the file just written: %v", err)
		}
		return
	}
	c.Count("ximage_parsed", 1)
	if xf.NumGlyphs() != f.NumGlyphs() {
		c.Fail("independent-parser", "NumGlyphs", "x/image sees %d glyphs, the font has %d", xf.NumGlyphs(), f.NumGlyphs())
	}
	if int(xf.UnitsPerEm()) != int(f.UnitsPerEm) {
		c.Fail("independent-parser", "UnitsPerEm", "x/image sees unitsPerEm %d, the font has %d", xf.UnitsPerEm(), f.UnitsPerEm)
	}
	var buf xsfnt.Buffer
	best, _ := f.CMapTable.GetBest()
	if best != nil {
		lo, hi := best.CodeRange()
		probe := []rune{lo, hi, lo + 1, hi - 1, 'A', 'x', ' ', 0x416, hi + 1}
		for i := 0; i < 24; i++ {
			probe = append(probe, lo+rune(c.T.Draw(int(hi-lo)+1)))
		}
		for _, r := range probe {
			if r < 0 || r > 0x10FFFF {
				continue
			}
			want := best.Lookup(r)
			got, err := xf.GlyphIndex(&buf, r)
			if err != nil {
				c.Count("ximage_glyphindex_error", 1)
				continue
			}
			if glyph.ID(got) != want {
				c.Fail("independent-parser", "GlyphIndex", "rune %U: x/image maps to glyph %d, the font to %d", r, got, want)
			}
			c.Count("ximage_glyphindex_checked", 1)
		}
	}
	ppem := fixed.I(int(f.UnitsPerEm))
	n := f.NumGlyphs()
	// outlines: every glyph the independent parser is asked for must load,
	// and for simple TrueType glyphs it must find one sub-path per contour
	for i := 0; i < 24 && i < n; i++ {
		gid := i
		if i >= 6 {
			gid = c.T.Draw(n)
		}
		segs, err := xf.LoadGlyph(&buf, xsfnt.GlyphIndex(gid), ppem, nil)
		if err != nil {
			if strings.Contains(err.Error(), "unsupported") || strings.Contains(err.Error(), "not supported") || strings.Contains(err.Error(), "compound glyph") {
				c.Count("ximage_loadglyph_unsupported", 1)
				continue
			}
			if o, ok := f.Outlines.(*glyf.Outlines); ok {
				if g := o.Glyphs[gid]; g != nil {
					if _, composite := g.Data.(glyf.CompositeGlyph); composite {
						// generated composites carry random transform bytes
						// and component ids; x/image may legitimately refuse
						c.Count("ximage_loadglyph_composite_refused", 1)
						continue
					}
				}
			}
			c.Fail("independent-parser", "LoadGlyph", "glyph %d: golang.org/x/image/font/sfnt cannot load the outline from the file just written: %v", gid, err)
		}
		moves := 0
		for _, s := range segs {
			if s.Op == xsfnt.SegmentOpMoveTo {
				moves++
			}
		}
		if o, ok := f.Outlines.(*glyf.Outlines); ok {
			g := o.Glyphs[gid]
			want := -1
			if g == nil {
				want = 0
			} else if sg, ok := g.Data.(glyf.SimpleGlyph); ok {
				if info, err := sg.Decode(); err == nil {
					want = 0
					for _, ct := range info.Contours {
						if len(ct) < 3 {
							want = -1 // degenerate contours: renderers differ
							break
						}
						want++
					}
				}
			}
			if want >= 0 && moves != want {
				c.Fail("independent-parser", "LoadGlyph/contours", "glyph %d: the font value has %d contours, golang.org/x/image/font/sfnt finds %d sub-paths in the file", gid, want, moves)
			}
			// every point of the glyph must come back from the independent
			// parser: on-curve points as segment end points, off-curve
			// points as control points (x/image adds implied mid-points
			// but drops nothing).  Coordinates are exact at ppem ==
			// unitsPerEm unless x/image's 32-bit product would overflow.
			if want > 0 {
				sg := g.Data.(glyf.SimpleGlyph)
				info, _ := sg.Decode()
				upem := int64(f.UnitsPerEm)
				ends := map[[2]int64]bool{}
				ctrls := map[[2]int64]bool{}
				for _, s := range segs {
					switch s.Op {
					case xsfnt.SegmentOpMoveTo, xsfnt.SegmentOpLineTo:
						ends[[2]int64{int64(s.Args[0].X), int64(s.Args[0].Y)}] = true
					case xsfnt.SegmentOpQuadTo:
						ctrls[[2]int64{int64(s.Args[0].X), int64(s.Args[0].Y)}] = true
						ends[[2]int64{int64(s.Args[1].X), int64(s.Args[1].Y)}] = true
					}
				}
				exact := true
				for _, ct := range info.Contours {
					for _, pt := range ct {
						for _, v := range []int64{int64(pt.X), int64(pt.Y)} {
							if v < 0 {
								v = -v
							}
							if v*upem*64+upem >= 1<<31 {
								exact = false
							}
						}
					}
				}
				if exact {
				pts:
					for ci, ct := range info.Contours {
						for pi, pt := range ct {
							key := [2]int64{int64(pt.X) * 64, -int64(pt.Y) * 64}
							set, what := ends, "on-curve"
							if !pt.OnCurve {
								set, what = ctrls, "off-curve"
							}
							if !set[key] {
								c.Fail("independent-parser", "LoadGlyph/points", "glyph %d contour %d point %d: %s point (%d,%d) of the font value does not occur in the outline golang.org/x/image/font/sfnt loads from the file", gid, ci, pi, what, pt.X, pt.Y)
								break pts
							}
						}
					}
					c.Count("ximage_points_checked", 1)
				} else {
					c.Count("ximage_points_inexact_skipped", 1)
				}
			}
		}
		c.Count("ximage_outlines_checked", 1)
	}
	for i := 0; i < 16 && i < n; i++ {
		gid := i
		if i >= 4 {
			gid = c.T.Draw(n)
		}
		adv, err := xf.GlyphAdvance(&buf, xsfnt.GlyphIndex(gid), ppem, 0)
		if err != nil {
			c.Count("ximage_advance_error", 1)
			continue
		}
		want := f.GlyphWidth(glyph.ID(gid))
		if want == float64(int(want)) && want >= 0 {
			if adv != fixed.I(int(want)) {
				c.Fail("independent-parser", "GlyphAdvance", "glyph %d: x/image reports advance %v at ppem=unitsPerEm, the font has %v", gid, adv, want)
			}
			c.Count("ximage_advance_checked", 1)
		}
		if o, ok := f.Outlines.(*glyf.Outlines); ok && o.Names != nil {
			name, err := xf.GlyphName(&buf, xsfnt.GlyphIndex(gid))
			if err != nil {
				c.Count("ximage_glyphname_error", 1)
			} else if name != o.Names[gid] {
				c.Fail("independent-parser", "GlyphName", "glyph %d: x/image reports name %q, the font has %q", gid, name, o.Names[gid])
			} else {
				c.Count("ximage_glyphname_checked", 1)
			}
		}
	}
	_ = cff.Font{}
}

func run(c *wk.Case) {
	if c.T.Weighted(7, 3) == 0 {
		runRaw(c)
	} else {
		runFont(c)
	}
}

func main() {
	wk.Main(&wk.Property{ID: "C03", Run: run})
}
