// Worker for C18: every fault point k of every corpus file, for the fault
// families writer-fails-at-k, file-cut-at-k, reader-fails-from-k (and the
// bad-sector variant reader-fails-in-[k,k+w)).
package main

import (
	"strings"
	"bytes"
	"fmt"
	"io"
	"os"
	"sort"

	"seehuhn.de/go/sfnt"
	"seehuhn.de/go/sfnt/cff"
	"seehuhn.de/go/sfnt/glyf"
	"seehuhn.de/go/sfnt/header"
	"seehuhn.de/go/sfnt/zzverif/simgen"
	"seehuhn.de/go/sfnt/zzverif/simhook"
	"seehuhn.de/go/sfnt/zzverif/simio"
	"seehuhn.de/go/sfnt/zzverif/tape"
	"seehuhn.de/go/sfnt/zzverif/wk"
)

type writeOp struct {
	name     string
	hasCount bool
	ok       func(f *sfnt.Font) bool
	run      func(f *sfnt.Font, w io.Writer) (int64, error)
}

func isCFF(f *sfnt.Font) bool  { _, ok := f.Outlines.(*cff.Outlines); return ok }
func isGlyf(f *sfnt.Font) bool { _, ok := f.Outlines.(*glyf.Outlines); return ok }

var writeOps = []writeOp{
	{"Write", true, func(*sfnt.Font) bool { return true },
		func(f *sfnt.Font, w io.Writer) (int64, error) { return f.Write(w) }},
	{"WriteTrueTypePDF", true, isGlyf,
		func(f *sfnt.Font, w io.Writer) (int64, error) { return f.WriteTrueTypePDF(w) }},
	{"WriteOpenTypeCFFPDF", false, isCFF,
		func(f *sfnt.Font, w io.Writer) (int64, error) { return 0, f.WriteOpenTypeCFFPDF(w) }},
	{"cff.Font.Write", false, isCFF,
		func(f *sfnt.Font, w io.Writer) (int64, error) { return 0, f.AsCFF().Write(w) }},
	{"header.Write", true, func(*sfnt.Font) bool { return true },
		func(f *sfnt.Font, w io.Writer) (int64, error) {
			// a raw table map derived from the font: exercises header.Write directly
			tables := map[string][]byte{
				"head": make([]byte, 54),
				"abcd": {1, 2, 3, 4, 5},
				"zz  ": {},
				"OS/2": []byte(f.FamilyName + "!"),
				"skip": nil,
			}
			return header.Write(w, header.ScalerTypeTrueType, tables)
		}},
}

type corpusFile struct {
	name   string
	font   *sfnt.Font
	ref    [][]byte            // reference bytes per write op (nil = not applicable)
	calls  [][]simio.WriteCall // write calls of the fault-free run, per write op
	file   []byte              // the file used by the read families
	dir    *simgen.Container
	parsed *sfnt.Font // Read(file), lazily
}

type planEntry struct {
	file int
	fam  int // 0 writer, 1 truncation, 2 reader fails from k, 3 bad sector
	op   int // writer: index into writeOps; reader: 0 ReaderAt, 1 sized ReaderAt, 2 streaming Reader
	k    int64
	mode int
}

var (
	corpus []*corpusFile
	plan   []planEntry
)

var famNames = []string{"writer", "truncated", "failing-reader", "bad-sector"}
var readerNames = []string{"ReaderAt", "ReaderAt(EOF-with-data)", "Reader(streaming)", "ReaderAt+Size()(section of a container)"}

// sectionReader is a ReaderAt that also reports a Size: the declared length
// of a font embedded in a container, whether or not the container still holds
// all of it.
type sectionReader struct {
	*simio.ReaderAt
	declared int64
}

func (s sectionReader) Size() int64 { return s.declared }

func buildCorpus(tier string, seed uint64) {
	add := func(name string, f *sfnt.Font) {
		corpus = append(corpus, &corpusFile{name: name, font: f})
	}
	nGo := 12
	nGen := 36
	if tier == "quick" {
		nGo = 4
	}
	for i := 0; i < nGo; i++ {
		add(simgen.GoFontNames[i], simgen.ReadGoFont(i))
	}
	add("goregular-as-cff", simgen.ToCFF(simgen.ReadGoFont(0), false))
	add("gomono-as-cid", simgen.ToCFF(simgen.ReadGoFont(6), true))
	for i := 0; i < nGen; i++ {
		t := tape.New(tape.CaseSeed(seed, "C18-corpus", uint64(i)))
		kind := simgen.Kind(i % 3)
		size := 0
		if i%4 == 3 {
			size = 1
		}
		f := simgen.GenFont(t, kind, size)
		if f.CreationTime.IsZero() && f.ModificationTime.IsZero() {
			f.CreationTime = f.CreationTime.AddDate(30, 0, 0)
		}
		if i%2 == 0 {
			simgen.AddLayoutTables(t, f)
		}
		add(fmt.Sprintf("gen%02d-%s", i, kind), f)
	}
	// a generated TrueType font whose physically last table is raw bytes
	// (gasp): a cut inside it is invisible to every table decoder
	{
		t := tape.New(tape.CaseSeed(seed, "C18-corpus-gasp", 0))
		f := simgen.GenFont(t, simgen.KindTrueType, 0)
		o := f.Outlines.(*glyf.Outlines)
		if o.Tables == nil {
			o.Tables = map[string][]byte{}
		}
		o.Tables["gasp"] = t.Bytes(40)
		f.Gsub, f.Gpos, f.Gdef = nil, nil, nil
		if f.CreationTime.IsZero() && f.ModificationTime.IsZero() {
			f.CreationTime = f.CreationTime.AddDate(30, 0, 0)
		}
		add("gen-truetype-raw-last-table", f)
	}
	// the same with every glyph blank: the glyf table is empty and shares its
	// offset with the table stored after it
	{
		t := tape.New(tape.CaseSeed(seed, "C18-corpus-gasp", 1))
		f := simgen.GenFont(t, simgen.KindTrueType, 0)
		o := f.Outlines.(*glyf.Outlines)
		for i := range o.Glyphs {
			o.Glyphs[i] = nil
		}
		o.Tables = map[string][]byte{"gasp": t.Bytes(28)}
		f.Gsub, f.Gpos, f.Gdef = nil, nil, nil
		if f.CreationTime.IsZero() && f.ModificationTime.IsZero() {
			f.CreationTime = f.CreationTime.AddDate(30, 0, 0)
		}
		add("gen-truetype-blank-raw-last-table", f)
	}
	// the original Go font files as they ship (table order of their producer:
	// the last table is the raw prep program), for the read families only
	nRaw := 2
	if tier == "thorough" {
		nRaw = 12
	}
	for i := 0; i < nRaw; i++ {
		corpus = append(corpus, &corpusFile{name: simgen.GoFontNames[i] + ".ttf(original bytes)", file: simgen.GoFontData(i)})
	}
	// a font as foundries ship it: the physically last table is one the
	// library does not interpret (a digital signature)
	{
		src := simgen.GoFontData(0)
		dir, err := simgen.ParseDirectory(src)
		if err != nil {
			panic(err)
		}
		tables := map[string][]byte{}
		for _, e := range dir.Entries {
			tables[e.Tag] = src[e.Offset : e.Offset+e.Length]
		}
		sig := make([]byte, 1500)
		for i := range sig {
			sig[i] = byte(i*7 + 1)
		}
		tables["DSIG"] = sig
		w := simio.NewWriter()
		if _, err := header.Write(w, dir.Scaler, tables); err != nil {
			panic(err)
		}
		d2, err := simgen.ParseDirectory(w.Disk)
		if err != nil {
			panic(err)
		}
		last := d2.Entries[0]
		for _, e := range d2.Entries {
			if e.Offset > last.Offset {
				last = e
			}
		}
		if last.Tag != "DSIG" {
			panic("worker: the uninterpreted table is not the last one: " + last.Tag)
		}
		corpus = append(corpus, &corpusFile{name: "goregular+signature(uninterpreted last table)", file: w.Disk})
	}
	for _, cf := range corpus {
		cf.ref = make([][]byte, len(writeOps))
		cf.calls = make([][]simio.WriteCall, len(writeOps))
		if cf.font == nil {
			dir, err := simgen.ParseDirectory(cf.file)
			if err != nil {
				panic(err)
			}
			cf.dir = dir
			continue
		}
		for oi, op := range writeOps {
			if !op.ok(cf.font) {
				continue
			}
			w := simio.NewWriter()
			n, err := op.run(cf.font, w)
			if err != nil {
				panic(fmt.Sprintf("worker: corpus file %s: fault-free %s failed: %v", cf.name, op.name, err))
			}
			if op.hasCount && n != int64(len(w.Disk)) {
				// reported as a violation by the fault-free plan entry below
				_ = n
			}
			cf.ref[oi] = w.Disk
			cf.calls[oi] = w.Calls
		}
		cf.file = cf.ref[0]
		dir, err := simgen.ParseDirectory(cf.file)
		if err != nil {
			panic(fmt.Sprintf("worker: corpus file %s: %v", cf.name, err))
		}
		cf.dir = dir
	}
	// the PDF flavour of the writer orders tables differently: its files
	// of the raw-last-table fonts join the read families as files
	var extra []*corpusFile
	for _, cf := range corpus {
		if cf.font != nil && strings.Contains(cf.name, "raw-last-table") && cf.ref[1] != nil {
			dir, err := simgen.ParseDirectory(cf.ref[1])
			if err != nil {
				panic(err)
			}
			extra = append(extra, &corpusFile{name: cf.name + "(as written by WriteTrueTypePDF)", file: cf.ref[1], dir: dir,
				ref: make([][]byte, len(writeOps)), calls: make([][]simio.WriteCall, len(writeOps))})
		}
	}
	corpus = append(corpus, extra...)
}

func boundaryPoints(cf *corpusFile, oi int, width int64) []int64 {
	set := map[int64]bool{}
	L := int64(len(cf.ref[oi]))
	addAround := func(p int64) {
		for d := -width; d <= width; d++ {
			if q := p + d; q >= 0 && q <= L {
				set[q] = true
			}
		}
	}
	addAround(0)
	addAround(L)
	for _, c := range cf.calls[oi] {
		addAround(c.Off)
		addAround(c.Off + int64(c.Len))
	}
	var res []int64
	for p := range set {
		res = append(res, p)
	}
	sort.Slice(res, func(i, j int) bool { return res[i] < res[j] })
	return res
}

func tablePoints(cf *corpusFile, width int64) []int64 {
	set := map[int64]bool{}
	L := int64(len(cf.file))
	addAround := func(p int64) {
		for d := -width; d <= width; d++ {
			if q := p + d; q >= 0 && q <= L {
				set[q] = true
			}
		}
	}
	addAround(0)
	addAround(12)
	addAround(int64(12 + 16*len(cf.dir.Entries)))
	addAround(L)
	for _, e := range cf.dir.Entries {
		addAround(int64(e.Offset))
		addAround(int64(e.Offset) + int64(e.Length))
	}
	var res []int64
	for p := range set {
		res = append(res, p)
	}
	sort.Slice(res, func(i, j int) bool { return res[i] < res[j] })
	return res
}

func interior(L int64, n int, salt uint64) []int64 {
	if L <= 0 {
		return nil
	}
	var res []int64
	s := salt
	for i := 0; i < n; i++ {
		s = tape.Mix(s)
		res = append(res, int64(s%uint64(L+1)))
	}
	return res
}

func buildPlan(tier string, seed uint64) {
	thorough := tier == "thorough"
	for fi, cf := range corpus {
		for oi := range writeOps {
			if cf.ref[oi] == nil {
				continue
			}
			L := int64(len(cf.ref[oi]))
			var ks []int64
			exhaustive := thorough && L <= 64<<10
			if exhaustive {
				for k := int64(0); k <= L; k++ {
					ks = append(ks, k)
				}
			} else {
				w := int64(1)
				n := 64
				if thorough {
					w, n = 2, 4096
				}
				ks = append(boundaryPoints(cf, oi, w), interior(L, n, seed^uint64(fi*131+oi))...)
			}
			bset := map[int64]bool{}
			for _, b := range boundaryPoints(cf, oi, 1) {
				bset[b] = true
			}
			// real operating-system files as destination: a full disk, a file
			// that cannot be written, and a healthy file
			for mode := 5; mode <= 7; mode++ {
				plan = append(plan, planEntry{fi, 0, oi, 0, mode})
			}
			for _, k := range ks {
				plan = append(plan, planEntry{fi, 0, oi, k, 0})
				if bset[k] {
					for mode := 1; mode <= 4; mode++ {
						plan = append(plan, planEntry{fi, 0, oi, k, mode})
					}
				}
			}
		}
		L := int64(len(cf.file))
		var ks []int64
		if thorough && L <= 64<<10 {
			for k := int64(0); k <= L; k++ {
				ks = append(ks, k)
			}
		} else {
			w, n := int64(1), 64
			if thorough {
				w, n = 2, 4096
			}
			ks = append(tablePoints(cf, w), interior(L, n, seed^uint64(fi*977))...)
		}
		for _, k := range ks {
			for fam := 1; fam <= 3; fam++ {
				for rop := 0; rop < 4; rop++ {
					if fam == 3 && rop == 2 {
						continue // a streaming reader has no "sector": same as fam 2
					}
					plan = append(plan, planEntry{fi, fam, rop, k, 0})
				}
			}
		}
	}
}

func setup(tier string, seed uint64) {
	buildCorpus(tier, seed)
	buildPlan(tier, seed)
	// deterministic shuffle so that expensive (large-file) cases are spread
	// evenly over the worker processes
	s := tape.Mix(seed ^ 0xC18)
	for i := len(plan) - 1; i > 0; i-- {
		s = tape.Mix(s)
		j := int(s % uint64(i+1))
		plan[i], plan[j] = plan[j], plan[i]
	}
}

func region(cf *corpusFile, k int64) string {
	switch {
	case k < 12:
		return "offset-table"
	case k < int64(12+16*len(cf.dir.Entries)):
		return "directory"
	case k < cf.dir.EndOfTables:
		return "table-data"
	case k < int64(len(cf.file)):
		return "trailing-padding"
	}
	return "end-of-file"
}

func (cf *corpusFile) parsedRef() *sfnt.Font {
	if cf.parsed == nil {
		f, err := sfnt.Read(bytes.NewReader(cf.file))
		if err != nil {
			panic(fmt.Sprintf("worker: reference file of %s is not readable: %v", cf.name, err))
		}
		cf.parsed = f
	}
	return cf.parsed
}

func run(c *wk.Case) {
	if c.Index >= uint64(len(plan)) {
		c.Trivial()
		return
	}
	e := plan[c.Index]
	cf := corpus[e.file]
	c.Sig(uint64(e.file), uint64(e.fam), uint64(e.op), uint64(e.k), uint64(e.mode))
	c.Count("fam_"+famNames[e.fam], 1)
	switch e.fam {
	case 0:
		runWriter(c, cf, e)
	default:
		runReader(c, cf, e)
	}
}

var osModes = map[int]string{5: "/dev/full (disk full: every write fails)", 6: "file opened read-only (every write fails)", 7: "healthy temporary file"}

// runOSFile writes to a real *os.File: library code may treat files
// differently from other writers.
func runOSFile(c *wk.Case, cf *corpusFile, e planEntry) {
	op := writeOps[e.op]
	ref := cf.ref[e.op]
	loc := "writer/" + op.name + "/os.File"
	c.Sample = map[string]any{"file": cf.name, "family": "writer: real os.File destination", "operation": op.name, "destination": osModes[e.mode]}
	c.Logf("file %s by %s into %s", cf.name, op.name, osModes[e.mode])
	var fd *os.File
	var err error
	var tmp string
	switch e.mode {
	case 5:
		fd, err = os.OpenFile("/dev/full", os.O_WRONLY, 0)
		if err != nil {
			c.Count("dev_full_unavailable", 1)
			c.Trivial()
			return
		}
	default:
		t, terr := os.CreateTemp("", "c18-*.otf")
		if terr != nil {
			c.Count("tempfile_unavailable", 1)
			c.Trivial()
			return
		}
		tmp = t.Name()
		defer os.Remove(tmp)
		if e.mode == 6 {
			t.Close()
			fd, err = os.Open(tmp) // read-only descriptor
			if err != nil {
				c.Trivial()
				return
			}
		} else {
			fd = t
		}
	}
	defer fd.Close()
	var n int64
	pi := c.Guard(func() { n, err = op.run(cf.font, fd) })
	if pi != nil {
		c.FailPanic(loc, pi)
	}
	c.Class(fmt.Sprintf("writer|%s|%s|os.File mode %d", op.name, kindOf(cf.font), e.mode))
	switch e.mode {
	case 5, 6:
		c.Count("fault_os_file_write_refused", 1)
		if err == nil {
			c.Fail("write-error-lost", loc, "%s on %s into %s: every write fails, yet the call returned a nil error (count %d)", op.name, cf.name, osModes[e.mode], n)
		}
		if op.hasCount && n != 0 {
			c.Fail("write-count", loc, "%s on %s into %s: the destination accepted 0 bytes, the call reports %d", op.name, cf.name, osModes[e.mode], n)
		}
	case 7:
		c.Count("fault_free_writes", 1)
		if err != nil {
			c.Fail("write-spurious-error", loc, "%s on %s into a healthy file failed: %v", op.name, cf.name, err)
		}
		fd.Sync()
		got, rerr := os.ReadFile(tmp)
		if rerr != nil {
			c.Trivial()
			return
		}
		if op.hasCount && n != int64(len(got)) {
			c.Fail("write-count", loc, "%s on %s: returned count %d, the file has %d bytes", op.name, cf.name, n, len(got))
		}
		if !bytes.Equal(got, ref) {
			c.Fail("write-not-deterministic", loc, "%s on %s: the bytes in the file differ from those written to an in-memory destination", op.name, cf.name)
		}
	}
}

func runWriter(c *wk.Case, cf *corpusFile, e planEntry) {
	if e.mode >= 5 {
		runOSFile(c, cf, e)
		return
	}
	op := writeOps[e.op]
	ref := cf.ref[e.op]
	L := int64(len(ref))
	loc := "writer/" + op.name
	w := simio.NewWriter()
	w.FailAt = e.k
	transient := false
	switch e.mode {
	case 4:
		w.Mode = 0
		transient = true
	default:
		w.Mode = e.mode
	}
	w.Transient = transient
	errName := "a private error value"
	if c.T.Chance(1, 3) {
		// the error value real buffered destinations return after a short write
		w.Err = io.ErrShortWrite
		errName = "io.ErrShortWrite"
		c.Count("writer_faults_reported_as_io.ErrShortWrite", 1)
	}
	c.Logf("file %s (%d bytes by %s): writer fails at byte %d, mode %d, with %s", cf.name, L, op.name, e.k, e.mode, errName)
	c.Sample = map[string]any{"file": cf.name, "family": "writer fails at k", "operation": op.name, "file_len": L, "k": e.k,
		"mode": []string{"accept exactly k bytes", "accept nothing of the failing call", "accept the whole failing call and report an error", "accept all but one byte", "transient: only this call fails"}[e.mode]}
	var n int64
	var err error
	// work on a private shallow copy so that header.Write's in-place patching
	// of freshly built tables cannot leak between cases
	pi := c.Guard(func() { n, err = op.run(cf.font, w) })
	if pi != nil {
		if st, isStorm := pi.Value.(simio.Storm); isStorm {
			c.Fail("no-termination", loc, "%s on %s: after the destination had failed for good at byte %d (mode %d, error %s) it was called %d more times: the write does not return", op.name, cf.name, e.k, e.mode, errName, st.Calls)
		}
		c.FailPanic(loc, pi)
	}
	accepted := int64(len(w.Disk))
	c.Logf("returned (%d, %v); destination accepted %d bytes in %d calls, fault fired: %v", n, err, accepted, len(w.Calls), w.Fired)
	callPos := "mid-call"
	for _, wc := range cf.calls[e.op] {
		if wc.Off == e.k {
			callPos = "call-boundary"
		}
	}
	c.Class(fmt.Sprintf("writer|%s|%s|mode%d|%s|fired=%v", op.name, kindOf(cf.font), e.mode, callPos, w.Fired))
	if w.Fired {
		c.Count("fault_writer_fired_mode"+fmt.Sprint(e.mode), 1)
		if err == nil {
			c.Fail("write-error-lost", loc, "%s on %s: the destination failed at byte %d (mode %d) but the call returned a nil error (count %d, accepted %d)",
				op.name, cf.name, e.k, e.mode, n, accepted)
		}
		if op.hasCount && n != accepted {
			c.Fail("write-count", loc, "%s on %s: returned count %d, destination accepted %d bytes (fault at %d, mode %d)",
				op.name, cf.name, n, accepted, e.k, e.mode)
		}
		if !transient {
			if accepted > L || !bytes.Equal(w.Disk, ref[:accepted]) {
				c.Fail("write-not-prefix", loc, "%s on %s: the %d bytes on the destination are not a prefix of the fault-free output", op.name, cf.name, accepted)
			}
		}
	} else {
		c.Count("fault_free_writes", 1)
		if err != nil {
			c.Fail("write-spurious-error", loc, "%s on %s: no fault fired but the call returned %v", op.name, cf.name, err)
		}
		if op.hasCount && n != accepted {
			c.Fail("write-count", loc, "%s on %s: fault-free write returned count %d, file has %d bytes", op.name, cf.name, n, accepted)
		}
		if !bytes.Equal(w.Disk, ref) {
			c.Fail("write-not-deterministic", loc, "%s on %s: a second fault-free write produced different bytes", op.name, cf.name)
		}
	}
}

func runReader(c *wk.Case, cf *corpusFile, e planEntry) {
	b := cf.file
	L := int64(len(b))
	loc := famNames[e.fam] + "/" + readerNames[e.op]
	c.Sample = map[string]any{"file": cf.name, "family": famNames[e.fam], "reader": readerNames[e.op], "file_len": L, "k": e.k}
	data := b
	failFrom := int64(-1)
	failTo := int64(-1)
	switch e.fam {
	case 1:
		data = b[:e.k]
	case 2:
		failFrom = e.k
	case 3:
		failFrom = e.k
		failTo = e.k + []int64{1, 4, 16, 64, 512}[c.T.Draw(5)]
	}
	var r io.Reader
	var ra *simio.ReaderAt
	var rs *simio.Reader
	switch e.op {
	case 0, 1, 3:
		ra = simio.NewReaderAt(data)
		ra.FailFrom = failFrom
		ra.FailTo = failTo
		ra.EOFStyle = e.op % 2
		r = ra
		if e.op == 3 {
			ra.EOFStyle = 0
			r = sectionReader{ra, L}
		}
	default:
		rs = simio.NewReader(data, c.T)
		rs.FailFrom = failFrom
		r = rs
	}
	c.Logf("file %s (%d bytes), family %s via %s, k=%d (end of table data %d)", cf.name, L, famNames[e.fam], readerNames[e.op], e.k, cf.dir.EndOfTables)
	var f *sfnt.Font
	var err error
	// the reader builds maps (the table directory among them): their
	// iteration order is part of the schedule
	simhook.OrderID = uint64(c.T.Draw(4))
	pi := c.Guard(func() { f, err = sfnt.Read(r) })
	simhook.OrderID = 0
	if pi != nil {
		c.FailPanic(loc, pi)
	}
	faults := 0
	if ra != nil {
		faults = ra.Faults
	} else {
		faults = rs.Faults
		c.Count("short_reads", rs.ShortReads)
	}
	c.Logf("Read returned err=%v; injected errors delivered: %d", err, faults)
	outcome := "ok"
	if err != nil {
		outcome = "error"
	}
	kind := "truetype(original file)"
	if cf.font != nil {
		kind = kindOf(cf.font)
	}
	c.Class(fmt.Sprintf("%s|%s|%s|%s|%s", famNames[e.fam], readerNames[e.op], kind, region(cf, e.k), outcome))
	switch e.fam {
	case 1:
		c.Count("fault_truncation", 1)
		if e.k < cf.dir.EndOfTables {
			if err == nil {
				c.Fail("truncation-accepted", loc, "%s cut at byte %d (table data ends at %d, file has %d bytes) was read without an error", cf.name, e.k, cf.dir.EndOfTables, L)
			}
		} else if err == nil {
			if d := simgen.FontDiff(f, cf.parsedRef()); d != "" {
				c.Fail("truncation-different-font", loc, "%s cut at byte %d (inside the trailing padding) was read as a different font: %s", cf.name, e.k, d)
			}
		} else if e.op != 1 {
			// only trailing padding is missing: an error is permitted by the
			// statement; count it
			c.Count("padding_only_truncation_rejected", 1)
		}
	case 2:
		if faults > 0 {
			c.Count("fault_reader_error_delivered", 1)
			if err == nil {
				c.Fail("read-error-lost", loc, "%s: the reader returned an injected error %d times (failing from offset %d) but Read reported success", cf.name, faults, e.k)
			}
		} else {
			c.Count("fault_reader_not_needed", 1)
			if err != nil {
				if e.op == 1 {
					// see DESIGN note N1: EOF-with-data readers may be refused
					c.Count("n1_eof_with_data_refused", 1)
				} else {
					c.Fail("read-spurious-error", loc, "%s: no injected error was delivered (failing from %d, file %d bytes) but Read failed: %v", cf.name, e.k, L, err)
				}
			} else if d := simgen.FontDiff(f, cf.parsedRef()); d != "" {
				c.Fail("read-different-font", loc, "%s: no injected error delivered but the font differs: %s", cf.name, d)
			}
		}
	case 3:
		if faults > 0 {
			c.Count("fault_bad_sector_delivered", 1)
			if err == nil {
				// success is only acceptable if the result is the right font
				if d := simgen.FontDiff(f, cf.parsedRef()); d != "" {
					c.Fail("read-error-swallowed", loc, "%s: a read error in [%d,%d) was delivered, Read reported success and returned a different font: %s", cf.name, failFrom, failTo, d)
				}
				c.Count("bad_sector_success_same_font", 1)
			}
		} else {
			c.Count("fault_bad_sector_not_needed", 1)
			if err != nil && e.op != 1 {
				c.Fail("read-spurious-error", loc, "%s: no injected error was delivered but Read failed: %v", cf.name, err)
			}
		}
	}
}

func kindOf(f *sfnt.Font) string {
	if o, ok := f.Outlines.(*cff.Outlines); ok {
		if o.IsCIDKeyed() {
			return "cff-cid"
		}
		return "cff"
	}
	return "truetype"
}

func main() {
	wk.Main(&wk.Property{ID: "C18", Run: run, Setup: setup,
		Plan: func(string, uint64) uint64 { return uint64(len(plan)) }})
}
