// Worker for C15: feature selection and layout under controlled map
// iteration order and Layouter call history; composition clauses (one glyph
// per character, kern table, standard ligatures) as incidental oracles.
package main

import (
	"bytes"
	"fmt"
	"sort"
	"strings"

	"golang.org/x/text/language"

	"seehuhn.de/go/postscript/funit"

	"seehuhn.de/go/sfnt"
	"seehuhn.de/go/sfnt/cmap"
	"seehuhn.de/go/sfnt/glyf"
	"seehuhn.de/go/sfnt/glyph"
	"seehuhn.de/go/sfnt/header"
	"seehuhn.de/go/sfnt/kern"
	"seehuhn.de/go/sfnt/opentype/classdef"
	"seehuhn.de/go/sfnt/opentype/gdef"
	"seehuhn.de/go/sfnt/opentype/coverage"
	"seehuhn.de/go/sfnt/opentype/gtab"
	"seehuhn.de/go/sfnt/zzverif/simgen"
	"seehuhn.de/go/sfnt/zzverif/simhook"
	"seehuhn.de/go/sfnt/zzverif/simio"
	"seehuhn.de/go/sfnt/zzverif/tape"
	"seehuhn.de/go/sfnt/zzverif/wk"
)

var sysTags = []string{"und-Zzzz", "und-Latn", "en", "de", "und-Arab", "tr-Latn", "und-Cyrl", "ru-Cyrl", "und-Grek", "fr-Latn",
	"nl-Latn", "und-Hebr", "ar-Arab", "ro-Latn", "sr-Cyrl", "pl-Latn", "und-Deva", "hi-Deva", "el-Grek", "es-Latn", "it-Latn", "sv-Latn",
	"und-Latn-x-latn", "en-Latn-x-latn-eng", "und-Zzzz-x-dflt", "de-Latn-x-latn-deu"}
var langPool = []string{"und", "en", "en-US", "en-GB", "de", "de-AT", "fr", "tr", "ru", "sr-Latn", "ja", "zh-Hans", "ar", "he", "hi", "el", "und-Latn",
	"und-Cyrl", "pt-BR", "mul", "nl", "sv", "es-419", "it", "pl", "ro", "x-private"}
var featTags = []string{"liga", "calt", "ccmp", "clig", "locl", "kern", "mark", "mkmk", "smcp", "salt", "dlig", "ss01"}

func orders(t *tape.Tape) []uint64 {
	return []uint64{0, 1, 2 + uint64(t.Draw(1 << 20)), 2 + uint64(t.Draw(1 << 20)), 0}
}

func trivialLookups(n int) gtab.LookupList {
	var ll gtab.LookupList
	for i := 0; i < n; i++ {
		ll = append(ll, &gtab.LookupTable{Meta: &gtab.LookupMetaInfo{LookupType: 1},
			Subtables: []gtab.Subtable{&gtab.Gsub1_1{Cov: coverage.Set{glyph.ID(i + 1): true}, Delta: 1}}})
	}
	return ll
}

func genInfo(t *tape.Tape) *gtab.Info {
	nl := t.Range(1, 10)
	nf := t.Range(1, 8)
	info := &gtab.Info{LookupList: trivialLookups(nl), ScriptList: gtab.ScriptListInfo{}}
	for i := 0; i < nf; i++ {
		f := &gtab.Feature{Tag: featTags[t.Draw(len(featTags))]}
		for j := t.Range(0, 4); j > 0; j-- {
			l := t.Draw(nl)
			if t.Chance(1, 12) {
				l = nl + t.Draw(3) // out of range: must be dropped
			}
			f.Lookups = append(f.Lookups, gtab.LookupIndex(l))
		}
		info.FeatureList = append(info.FeatureList, f)
	}
	ns := 1 + t.Weighted(3, 4, 3, 2, 1)
	if t.Chance(1, 6) {
		ns = t.Range(6, 20)
	}
	off := t.Draw(len(sysTags))
	for i := 0; i < ns; i++ {
		tag := language.MustParse(sysTags[(off+i*5)%len(sysTags)])
		ff := &gtab.Features{Required: 0xFFFF}
		switch t.Weighted(3, 2, 1) {
		case 1:
			ff.Required = gtab.FeatureIndex(t.Draw(nf))
		case 2:
			ff.Required = gtab.FeatureIndex(nf + t.Draw(3))
		}
		for f := 0; f < nf; f++ {
			if t.Chance(1, 2) {
				ff.Optional = append(ff.Optional, gtab.FeatureIndex(f))
			}
		}
		if t.Chance(1, 10) {
			ff.Optional = append(ff.Optional, gtab.FeatureIndex(nf+t.Draw(2)))
		}
		info.ScriptList[tag] = ff
	}
	return info
}

func genSwitches(t *tape.Tape) map[string]bool {
	switch t.Weighted(2, 2, 4) {
	case 0:
		return nil
	case 1:
		return gtab.GsubDefaultFeatures
	}
	m := map[string]bool{}
	for _, tag := range featTags {
		switch t.Draw(3) {
		case 0:
			m[tag] = true
		case 1:
			m[tag] = false
		}
	}
	return m
}

// model: the lookups selected by one language system.
func modelLookups(info *gtab.Info, ff *gtab.Features, sw map[string]bool) []gtab.LookupIndex {
	set := map[gtab.LookupIndex]bool{}
	add := func(fi gtab.FeatureIndex, force bool) {
		if int(fi) >= len(info.FeatureList) {
			return
		}
		f := info.FeatureList[fi]
		if !force && !sw[f.Tag] {
			return
		}
		for _, l := range f.Lookups {
			if int(l) < len(info.LookupList) {
				set[l] = true
			}
		}
	}
	add(ff.Required, true)
	for _, fi := range ff.Optional {
		add(fi, false)
	}
	var res []gtab.LookupIndex
	for l := range set {
		res = append(res, l)
	}
	sort.Slice(res, func(i, j int) bool { return res[i] < res[j] })
	return res
}

func sameLookups(a, b []gtab.LookupIndex) bool {
	if len(a) != len(b) {
		return false
	}
	for i := range a {
		if a[i] != b[i] {
			return false
		}
	}
	return true
}

func runFindLookups(c *wk.Case) {
	t := c.T
	info := genInfo(t)
	lang := language.Make(langPool[t.Draw(len(langPool))])
	sw := genSwitches(t)
	var tags []string
	for tag := range info.ScriptList {
		tags = append(tags, tag.String())
	}
	sort.Strings(tags)
	c.Sample = map[string]any{"kind": "FindLookups", "language_systems": tags, "language": lang.String(), "features": fmt.Sprint(info.FeatureList), "switches": fmt.Sprint(sw)}
	c.Logf("FindLookups: systems=%v lang=%s features=%v switches=%v lookups=%d", tags, lang, info.FeatureList, sw, len(info.LookupList))
	c.SigString(strings.Join(tags, ",") + "|" + lang.String() + "|" + fmt.Sprint(info.FeatureList) + fmt.Sprint(sw))
	c.Class(fmt.Sprintf("findlookups|systems=%s|switches=%v", bucket(len(tags)), sw != nil))
	var ref []gtab.LookupIndex
	for i, ord := range orders(t) {
		var got []gtab.LookupIndex
		simhook.OrderID = ord
		pi := c.Guard(func() { got = info.FindLookups(lang, sw) })
		simhook.OrderID = 0
		if pi != nil {
			c.FailPanic("FindLookups", pi)
		}
		c.Count("find_lookups_calls", 1)
		if i == 0 {
			ref = got
			for j, l := range got {
				if int(l) >= len(info.LookupList) {
					c.Fail("lookups-out-of-range", "FindLookups", "lookup index %d returned, the list has %d lookups", l, len(info.LookupList))
				}
				if j > 0 && got[j-1] >= l {
					c.Fail("lookups-not-ascending", "FindLookups", "result %v is not strictly ascending", got)
				}
			}
			ok := false
			for _, ff := range info.ScriptList {
				if sameLookups(modelLookups(info, ff, sw), got) {
					ok = true
				}
			}
			if !ok {
				c.Fail("lookups-match-no-system", "FindLookups", "result %v is not the lookup set (required feature + enabled optional features) of any language system", got)
			}
			continue
		}
		if !sameLookups(ref, got) {
			if ord == 0 {
				c.Fail("lookups-unstable", "FindLookups/history", "the same call returned %v, then %v", ref, got)
			}
			sites := wk.BlameSites(0, ord, func() uint64 { return simgen.Digest(info.FindLookups(lang, sw)) })
			c.Fail("lookups-order-dependence", "FindLookups/"+strings.Join(sites, "+"),
				"FindLookups(%s) returned %v under map order 0 and %v under map order %d (language systems %v); responsible map iteration site(s): %v", lang, ref, got, ord, tags, sites)
		}
	}
}

func bucket(n int) string {
	switch {
	case n <= 1:
		return "1"
	case n <= 3:
		return "2-3"
	case n <= 6:
		return "4-6"
	}
	return ">6"
}

func copySeq(seq []glyph.Info) []glyph.Info {
	res := make([]glyph.Info, len(seq))
	for i, g := range seq {
		res[i] = g
		res[i].Text = append([]rune(nil), g.Text...)
	}
	return res
}

func genString(t *tape.Tape, mapped []rune) string {
	n := t.Range(0, 12)
	var sb strings.Builder
	for i := 0; i < n; i++ {
		switch {
		case len(mapped) > 0 && !t.Chance(1, 5):
			k := len(mapped)
			if k > 8 && t.Chance(2, 3) {
				k = 8 // hot set
			}
			sb.WriteRune(mapped[t.Draw(k)])
		default:
			sb.WriteRune([]rune{'?', 0x3042, 0x1F600, 'q', 0xFFFD}[t.Draw(5)])
		}
	}
	return sb.String()
}

func mappedRunes(f *sfnt.Font) []rune {
	best, _ := f.CMapTable.GetBest()
	if best == nil {
		return nil
	}
	lo, hi := best.CodeRange()
	var res []rune
	for r := lo; r <= hi && len(res) < 64; r++ {
		if best.Lookup(r) != 0 {
			res = append(res, r)
		}
	}
	return res
}

func runLayout(c *wk.Case) {
	t := c.T
	f := simgen.GenFont(t, simgen.Kind(t.Draw(3)), 0)
	if f.CMapTable == nil {
		m := cmap.Format4{}
		for i := 1; i < f.NumGlyphs() && i < 60; i++ {
			m[uint16(0x40+i)] = glyph.ID(i)
		}
		if len(m) == 0 {
			m[0x41] = 0
		}
		f.InstallCMap(m)
	}
	withLayout := t.Chance(3, 4)
	if withLayout {
		simgen.AddLayoutTables(t, f)
	}
	lang := language.Make(langPool[t.Draw(len(langPool))])
	var gsubF, gposF map[string]bool
	if t.Chance(1, 2) {
		gsubF = genSwitches(t)
		gposF = genSwitches(t)
	}
	runes := mappedRunes(f)
	strs := []string{genString(t, runes), genString(t, runes), genString(t, runes)}
	c.Sample = map[string]any{"kind": "Layout", "glyphs": f.NumGlyphs(), "gsub": f.Gsub != nil, "gpos": f.Gpos != nil, "gdef": f.Gdef != nil, "language": lang.String(), "strings": strs}
	c.Logf("Layout: %d glyphs gsub=%v gpos=%v gdef=%v lang=%s strings=%q", f.NumGlyphs(), f.Gsub != nil, f.Gpos != nil, f.Gdef != nil, lang, strs)
	c.Sig(simgen.FontDigest(f))
	c.SigString(strings.Join(strs, "|") + lang.String())
	c.Class(fmt.Sprintf("layout|gsub=%v|gpos=%v|gdef=%v", f.Gsub != nil, f.Gpos != nil, f.Gdef != nil))

	layoutAll := func(ord uint64) ([][]glyph.Info, *wk.PanicInfo) {
		var out [][]glyph.Info
		simhook.OrderID = ord
		pi := c.Guard(func() {
			wk.Budget(400_000_000)
			l, err := f.NewLayouter(lang, gsubF, gposF)
			if err != nil {
				return
			}
			// history: s0, s1, s2, then s0 again on the same layouter
			for _, s := range []string{strs[0], strs[1], strs[2], strs[0]} {
				out = append(out, copySeq(l.Layout(s)))
			}
		})
		simhook.OrderID = 0
		simhook.Next = ^uint64(0)
		return out, pi
	}
	var ref [][]glyph.Info
	for i, ord := range orders(t)[:4] {
		out, pi := layoutAll(ord)
		if pi != nil {
			// safety and termination of shaping are C07's business; here a
			// panic only ends the case
			c.Count("layout_panicked_(C07)", 1)
			return
		}
		c.Count("layouts", len(out))
		if len(out) == 4 {
			if d := simgen.DeepDiff(out[0], out[3], 0, false); d != "" {
				c.Fail("layout-history", "Layout", "laying out %q again on the same Layouter gives a different result: %s", strs[0], d)
			}
		}
		if i == 0 {
			ref = out
			if !withLayout || (f.Gsub == nil && f.Gpos == nil) {
				onePerRune(c, f, strs, out)
			}
			if f.Gpos == nil {
				// widths are assigned after GSUB: without GPOS every non-mark
				// glyph carries exactly the font's advance width
				for k, seq := range out {
					for j, g := range seq {
						if int(g.GID) >= f.NumGlyphs() || f.Gdef.IsMark(g.GID) {
							continue
						}
						if g.Advance != funit.Int16(f.GlyphWidth(g.GID)) || g.XOffset != 0 || g.YOffset != 0 {
							c.Fail("advance-after-gsub", "Layout", "no GPOS: glyph %d (position %d of layout %d, strings %q) has advance %d offsets (%d,%d); the font's advance width is %v",
								g.GID, j, k, strs, g.Advance, g.XOffset, g.YOffset, f.GlyphWidth(g.GID))
						}
					}
				}
				c.Count("advance_after_gsub_checked_(incidental)", 1)
			}
			continue
		}
		if d := simgen.DeepDiff(ref, out, 0, false); d != "" {
			sites := wk.BlameSites(0, ord, func() uint64 { o, _ := layoutAll(simhook.OrderID); return simgen.Digest(o) })
			c.Fail("layout-order-dependence", "Layout/"+strings.Join(sites, "+"), "Layout differs between map order 0 and %d: %s; responsible map iteration site(s): %v", ord, d, sites)
		}
	}
}

// onePerRune: with no applicable rule the output is one glyph per character.
func onePerRune(c *wk.Case, f *sfnt.Font, strs []string, out [][]glyph.Info) {
	best, _ := f.CMapTable.GetBest()
	if best == nil || len(out) < 3 {
		return
	}
	for k, s := range strs {
		rr := []rune(s)
		if len(out[k]) != len(rr) {
			c.Fail("one-glyph-per-character", "Layout", "font without GSUB/GPOS: %q (%d characters) laid out to %d glyphs", s, len(rr), len(out[k]))
		}
		for i, r := range rr {
			g := out[k][i]
			want := best.Lookup(r)
			if g.GID != want || len(g.Text) != 1 || g.Text[0] != r {
				c.Fail("one-glyph-per-character", "Layout", "character %d of %q (%U): got glyph %d text %q, want glyph %d", i, s, r, g.GID, string(g.Text), want)
			}
			if f.Gdef.IsMark(want) {
				continue // only non-mark glyphs get their advance width
			}
			if g.Advance != funit.Int16(f.GlyphWidth(want)) || g.XOffset != 0 || g.YOffset != 0 {
				c.Fail("one-glyph-per-character", "Layout/advance", "glyph %d: advance %d offsets (%d,%d), font width %v", want, g.Advance, g.XOffset, g.YOffset, f.GlyphWidth(want))
			}
		}
	}
	c.Count("one_per_rune_checked_(incidental)", 1)
}

// rebuild assembles a font file from the tables of b plus/minus some tables.
func rebuild(c *wk.Case, b []byte, add map[string][]byte, drop ...string) []byte {
	dir, err := header.Read(bytes.NewReader(b))
	if err != nil {
		c.Fail("harness", "rebuild", "cannot re-read own file: %v", err)
	}
	tables := map[string][]byte{}
	for tag := range dir.Toc {
		data, err := dir.ReadTableBytes(bytes.NewReader(b), tag)
		if err != nil {
			c.Fail("harness", "rebuild", "cannot re-read table %s: %v", tag, err)
		}
		tables[tag] = data
	}
	for _, d := range drop {
		delete(tables, d)
	}
	for k, v := range add {
		tables[k] = v
	}
	w := simio.NewWriter()
	if _, err := header.Write(w, dir.ScalerType, tables); err != nil {
		c.Fail("harness", "rebuild", "header.Write: %v", err)
	}
	return w.Disk
}

func runKern(c *wk.Case) {
	t := c.T
	huge := t.Chance(1, 25) // a kern subtable whose 16-bit length field overflows (> 10920 pairs)
	size := 0
	if huge {
		size = 1
	}
	f := simgen.GenFont(t, simgen.KindTrueType, size)
	n := f.NumGlyphs()
	if n < 4 {
		c.Trivial()
		return
	}
	if huge && n < 110 {
		huge = false
	}
	m := cmap.Format4{}
	for i := 1; i < n && i < 120; i++ {
		m[uint16(0x60+i)] = glyph.ID(i)
	}
	f.InstallCMap(m)
	f.Gsub, f.Gpos, f.Gdef = nil, nil, nil
	isMark := map[glyph.ID]bool{}
	if t.Chance(1, 2) {
		// a GDEF table that classifies some glyphs as marks must not change
		// which pairs are kerned
		gd := &gdef.Table{GlyphClass: classdef.Table{}}
		for g := 1; g < n && g < 40; g++ {
			switch t.Weighted(3, 2, 2) {
			case 1:
				gd.GlyphClass[glyph.ID(g)] = gdef.GlyphClassBase
			case 2:
				gd.GlyphClass[glyph.ID(g)] = gdef.GlyphClassMark
				isMark[glyph.ID(g)] = true
			}
		}
		if len(gd.GlyphClass) > 0 {
			f.Gdef = gd
		}
	}
	// make it fixed pitch so that Read does not add standard ligatures
	o := f.Outlines.(*glyf.Outlines)
	for i := range o.Widths {
		o.Widths[i] = 500
	}
	w := simio.NewWriter()
	if _, err := f.Write(w); err != nil {
		c.Fail("harness", "kern", "Write: %v", err)
	}
	// a kern table with 1..4 subtables: accumulating, minimum and override
	// subtables plus subtables a reader must ignore (vertical, cross-stream,
	// format 2); the expected value of every pair follows the OpenType
	// definition of the coverage bits
	k := kern.Info{} // expected result
	pick := func() glyph.ID { return glyph.ID(1 + t.Draw(min(n-1, 39, 6+t.Draw(34)))) }
	var kernTable []byte
	simple := t.Chance(1, 3)
	if huge {
		simple = true
		for a := 1; a <= 105; a++ {
			for b := 1; b <= 105; b++ {
				k[glyph.Pair{Left: glyph.ID(a), Right: glyph.ID(b)}] = funit.Int16(1 + (a*7+b*13)%300 - 150)
			}
		}
		for p, v := range k {
			if v == 0 {
				k[p] = 5
			}
		}
		kernTable = k.Encode()
		c.Count("kern_tables_with_more_than_10920_pairs", 1)
	} else if simple {
		np := t.Range(1, 12)
		for i := 0; i < np; i++ {
			v := funit.Int16(t.Range(1, 400) - 200)
			if v == 0 {
				v = 7
			}
			k[glyph.Pair{Left: pick(), Right: pick()}] = v
		}
		kernTable = k.Encode()
	} else {
		nt := t.Range(1, 4)
		kernTable = []byte{0, 0, 0, byte(nt)}
		for st := 0; st < nt; st++ {
			kind := t.Weighted(4, 2, 2, 1, 1, 1) // accumulate, minimum, override, vertical, cross-stream, format 2
			pairs := map[glyph.Pair]funit.Int16{}
			for i := t.Range(0, 8); i > 0; i-- {
				v := funit.Int16(t.Range(0, 300) - 150)
				if t.Chance(1, 4) {
					v = 0
				}
				pairs[glyph.Pair{Left: pick(), Right: pick()}] = v
			}
			var keys []glyph.Pair
			for p := range pairs {
				keys = append(keys, p)
			}
			sort.Slice(keys, func(i, j int) bool {
				if keys[i].Left != keys[j].Left {
					return keys[i].Left < keys[j].Left
				}
				return keys[i].Right < keys[j].Right
			})
			format, flags := byte(0), byte(1)
			switch kind {
			case 1:
				flags = 1 | 2
			case 2:
				flags = 1 | 8
			case 3:
				flags = 0
			case 4:
				flags = 1 | 4
			case 5:
				format = 2
			}
			np := len(keys)
			es := 0
			for (1 << (es + 1)) <= np {
				es++
			}
			sr := 0
			if np > 0 {
				sr = 6 * (1 << es)
			}
			// subtables are chained by their length fields; tools that align
			// subtables count the padding in the length
			pad := 0
			if t.Chance(1, 4) {
				pad = []int{2, 2, 4, 6}[t.Draw(4)]
				c.Count("kern_subtables_with_padding_counted_in_the_length", 1)
			}
			length := 14 + 6*np + pad
			sub := []byte{0, 0, byte(length >> 8), byte(length), format, flags,
				byte(np >> 8), byte(np), byte(sr >> 8), byte(sr), byte(es >> 8), byte(es), byte((6*np - sr) >> 8), byte(6*np - sr)}
			for _, p := range keys {
				v := pairs[p]
				sub = append(sub, byte(p.Left>>8), byte(p.Left), byte(p.Right>>8), byte(p.Right), byte(v>>8), byte(v))
				switch kind {
				case 0:
					k[p] += v
				case 1:
					if k[p] < v {
						k[p] = v
					}
				case 2:
					k[p] = v
				}
			}
			sub = append(sub, make([]byte, pad)...)
			kernTable = append(kernTable, sub...)
			c.Logf("kern subtable %d: kind %d pairs %v padding %d", st, kind, pairs, pad)
		}
	}
	b := rebuild(c, w.Disk, map[string][]byte{"kern": kernTable})
	var g *sfnt.Font
	var err error
	c.MustNotPanic("Read(kern font)", func() { g, err = sfnt.Read(bytes.NewReader(b)) })
	if err != nil {
		c.Fail("kern", "Read", "a font with a kern table written by kern.Info.Encode is rejected: %v", err)
	}
	c.Sample = map[string]any{"kind": "kern table", "pairs": len(k), "glyphs": n, "single_subtable_by_library_encoder": simple}
	c.Logf("kern font: %d glyphs, pairs %v", n, k)
	c.Sig(simgen.Digest(b))
	c.Class(fmt.Sprintf("kern|simple=%v", simple))
	var l *sfnt.Layouter
	c.MustNotPanic("NewLayouter(kern font)", func() { l, err = g.NewLayouter(language.Und, nil, nil) })
	if err != nil {
		c.Fail("kern", "NewLayouter", "%v", err)
	}
	check := func(a, b glyph.ID) {
		s := string([]rune{rune(0x60 + int(a)), rune(0x60 + int(b))})
		var seq []glyph.Info
		c.MustNotPanic("Layout(kern font)", func() { seq = copySeq(l.Layout(s)) })
		if len(seq) != 2 || seq[0].GID != a || seq[1].GID != b {
			c.Fail("kern", "Layout", "pair (%d,%d) laid out as %v", a, b, seq)
		}
		base := func(g glyph.ID) funit.Int16 {
			if isMark[g] {
				return 0 // marks get no advance width
			}
			return 500
		}
		want := base(a) + k[glyph.Pair{Left: a, Right: b}]
		if seq[0].Advance != want || seq[1].Advance != base(b) || seq[0].XOffset != 0 || seq[1].XOffset != 0 {
			c.Fail("kern", "Layout/advance", "pair (%d,%d) with kern value %d (marks: %v,%v): advances (%d,%d), offsets (%d,%d); want (%d,%d) and no offsets",
				a, b, k[glyph.Pair{Left: a, Right: b}], isMark[a], isMark[b], seq[0].Advance, seq[1].Advance, seq[0].XOffset, seq[1].XOffset, want, base(b))
		}
	}
	if huge {
		for i := 0; i < 40; i++ {
			check(glyph.ID(1+t.Draw(105)), glyph.ID(1+t.Draw(105)))
		}
		check(105, 105)
		check(104, 3)
	} else {
		for p := range k {
			check(p.Left, p.Right)
		}
	}
	for i := 0; i < 6; i++ {
		check(pick(), pick())
	}
	c.Count("kern_fonts_checked_(incidental)", 1)
}

func runLigatures(c *wk.Case) {
	t := c.T
	f := simgen.GenFont(t, simgen.KindTrueType, 0)
	n := f.NumGlyphs()
	if n < 12 {
		c.Trivial()
		return
	}
	o := f.Outlines.(*glyf.Outlines)
	o.Widths[1], o.Widths[2] = 300, 700 // proportional
	m := cmap.Format4{'f': 1, 'a': 4}
	// the component letters i and l may be missing from the font (a subset
	// font): a ligature whose components the font cannot spell is not a rule
	if t.Chance(3, 4) {
		m['i'] = 2
	}
	if t.Chance(3, 4) {
		m['l'] = 3
	}
	ligs := map[rune]string{0xFB00: "ff", 0xFB01: "fi", 0xFB02: "fl", 0xFB03: "ffi", 0xFB04: "ffl"}
	present := map[rune]bool{}
	gid := glyph.ID(5)
	for r := rune(0xFB00); r <= 0xFB04; r++ {
		if t.Chance(3, 4) {
			m[uint16(r)] = gid
			present[r] = true
			gid++
		}
	}
	f.InstallCMap(m)
	f.Gsub, f.Gpos, f.Gdef = nil, nil, nil
	w := simio.NewWriter()
	if _, err := f.Write(w); err != nil {
		c.Fail("harness", "ligatures", "Write: %v", err)
	}
	var g *sfnt.Font
	var err error
	c.MustNotPanic("Read", func() { g, err = sfnt.Read(bytes.NewReader(w.Disk)) })
	if err != nil {
		c.Fail("ligatures", "Read", "%v", err)
	}
	var l *sfnt.Layouter
	c.MustNotPanic("NewLayouter", func() { l, err = g.NewLayouter(language.English, nil, nil) })
	if err != nil {
		c.Fail("ligatures", "NewLayouter", "%v", err)
	}
	c.Sample = map[string]any{"kind": "standard ligatures", "present": fmt.Sprint(present), "i_mapped": m['i'] != 0, "l_mapped": m['l'] != 0}
	c.Sig(simgen.Digest(w.Disk))
	c.Class("ligatures")
	spellable := func(s string) bool {
		for _, r := range s {
			if m[uint16(r)] == 0 {
				return false
			}
		}
		return true
	}
	for r, s := range ligs {
		if !present[r] || !spellable(s) {
			continue
		}
		var seq []glyph.Info
		c.MustNotPanic("Layout", func() { seq = copySeq(l.Layout("a" + s + "a")) })
		if len(seq) != 3 || seq[1].GID != glyph.ID(m[uint16(r)]) || string(seq[1].Text) != s {
			c.Fail("ligatures", "Layout", "proportional font without GSUB that maps %U: %q laid out as %v", r, "a"+s+"a", seq)
		}
	}
	// characters the font does not map never take part in a ligature: every
	// character of these strings must come out as its own glyph
	for _, s := range []string{"fq", "f\u4e00a", "afx", "ffq"} {
		if !spellable(strings.TrimRight(s, "qx\u4e00a")) {
			continue
		}
		var seq []glyph.Info
		c.MustNotPanic("Layout", func() { seq = copySeq(l.Layout(s)) })
		rr := []rune(s)
		// "ff" may legitimately become a ligature if the font has it
		if strings.HasPrefix(s, "ff") && present[0xFB00] {
			continue
		}
		if len(seq) != len(rr) {
			c.Fail("ligatures", "Layout/unmapped", "%q (%d characters, the last ones not mapped by the font) laid out to %d glyphs: %v", s, len(rr), len(seq), seq)
		}
		for i, r := range rr {
			if seq[i].GID != glyph.ID(m[uint16(r)]) {
				c.Fail("ligatures", "Layout/unmapped", "%q: character %d (%U) came out as glyph %d, the font maps it to %d", s, i, r, seq[i].GID, m[uint16(r)])
			}
		}
	}
	// a letter the font lacks (i or l) after f: no ligature may swallow it
	for _, s := range []string{"fi", "fl", "afia", "ffl", "ffi"} {
		if spellable(s) {
			continue
		}
		var seq []glyph.Info
		c.MustNotPanic("Layout", func() { seq = copySeq(l.Layout(s)) })
		// count the output glyphs that are ligature glyphs reachable only through the missing letter
		for _, gi := range seq {
			for r, comp := range ligs {
				if present[r] && gi.GID == glyph.ID(m[uint16(r)]) && !spellable(comp) {
					c.Fail("ligatures", "Layout/missing-component", "%q: the output contains the ligature glyph for %U (%q) although the font does not map all of its letters: %v", s, r, comp, seq)
				}
			}
		}
	}
	c.Count("ligature_fonts_checked_(incidental)", 1)
}

// runCmapFallback: a font as other tools write it, with a character map
// subtable of higher priority that the library cannot decode (format 10: valid
// OpenType, not implemented) in front of the one it can.  Reading and laying
// out must work through the usable subtable, exactly as if the other one were
// not there.
func runCmapFallback(c *wk.Case) {
	t := c.T
	f := simgen.GenFont(t, simgen.Kind(t.Draw(3)), 0)
	n := f.NumGlyphs()
	if n < 3 {
		c.Trivial()
		return
	}
	m := cmap.Format4{}
	for i := 1; i < n && i < 100; i++ {
		m[uint16(0x40+i)] = glyph.ID(i)
	}
	f.InstallCMap(m)
	f.Gsub, f.Gpos, f.Gdef = nil, nil, nil
	w := simio.NewWriter()
	if _, err := f.Write(w); err != nil {
		c.Fail("harness", "cmap-fallback", "Write: %v", err)
	}
	plain := w.Disk
	dir, err := header.Read(bytes.NewReader(plain))
	if err != nil {
		c.Fail("harness", "cmap-fallback", "header.Read: %v", err)
	}
	raw, err := dir.ReadTableBytes(bytes.NewReader(plain), "cmap")
	if err != nil {
		c.Fail("harness", "cmap-fallback", "cmap: %v", err)
	}
	tab, err := cmap.Decode(raw)
	if err != nil {
		c.Fail("harness", "cmap-fallback", "cmap.Decode: %v", err)
	}
	if _, has := tab[cmap.Key{PlatformID: 3, EncodingID: 10}]; has {
		c.Trivial()
		return
	}
	// format 10 (trimmed array): format, reserved, length, language, start, count, glyph ids
	k := t.Range(1, 6)
	sub := []byte{0, 10, 0, 0, 0, 0, 0, byte(20 + 2*k), 0, 0, 0, 0, 0, 0, 0, 0x41, 0, 0, 0, byte(k)}
	for i := 0; i < k; i++ {
		sub = append(sub, 0, byte(1+i%(n-1)))
	}
	tab[cmap.Key{PlatformID: 3, EncodingID: 10}] = sub
	other := rebuild(c, plain, map[string][]byte{"cmap": tab.Encode()})
	c.Sample = map[string]any{"kind": "font with an undecodable higher-priority cmap subtable", "glyphs": n}
	c.Sig(simgen.Digest(other))
	var fa, fb *sfnt.Font
	var ea, eb error
	c.MustNotPanic("Read", func() { fa, ea = sfnt.Read(bytes.NewReader(plain)); fb, eb = sfnt.Read(bytes.NewReader(other)) })
	if ea != nil {
		c.Fail("harness", "cmap-fallback", "own file rejected: %v", ea)
	}
	if eb != nil {
		c.Fail("cmap-fallback", "Read", "the font is rejected once an undecodable (3,10) format 10 subtable is added to its character map: %v", eb)
	}
	var la, lb *sfnt.Layouter
	c.MustNotPanic("NewLayouter", func() { la, ea = fa.NewLayouter(language.English, nil, nil); lb, eb = fb.NewLayouter(language.English, nil, nil) })
	if ea != nil {
		c.Trivial()
		return
	}
	if eb != nil {
		c.Fail("cmap-fallback", "NewLayouter", "NewLayouter fails once an undecodable (3,10) format 10 subtable is added to the character map (the usable (3,1) subtable is still there): %v", eb)
	}
	c.Count("cmap_fallback_cases", 1)
	for i := 0; i < 4; i++ {
		str := genString(t, mappedRunes(fa))
		var ga, gb []glyph.Info
		c.MustNotPanic("Layout", func() {
			ga = copySeq(la.Layout(str))
			gb = copySeq(lb.Layout(str))
		})
		if d := simgen.DeepDiff(ga, gb, 0, false); d != "" {
			c.Fail("cmap-fallback", "Layout", "Layout(%q) differs once an undecodable (3,10) subtable is added to the character map: %s", str, d)
		}
	}
}

func run(c *wk.Case) {
	switch c.T.Weighted(20, 12, 2, 2, 1) {
	case 4:
		runCmapFallback(c)
	case 0:
		runFindLookups(c)
	case 1:
		runLayout(c)
	case 2:
		runKern(c)
	default:
		runLigatures(c)
	}
}

func main() {
	wk.Main(&wk.Property{ID: "C15", Run: run})
}
