// Package wk is the worker side of the supervisor/worker protocol: it runs a
// range of cases of one property, journals every case before it starts,
// recovers and classifies panics, minimises violating tapes in process and
// reports counters, state classes, samples and case signatures.
package wk

import (
	"bufio"
	"encoding/binary"
	"encoding/json"
	"flag"
	"fmt"
	"os"
	"runtime"
	"sort"
	"strings"
	"syscall"
	"time"

	"seehuhn.de/go/sfnt/zzverif/simhook"
	"seehuhn.de/go/sfnt/zzverif/tape"
)

// HarnessVersion is recorded in replay files.
const HarnessVersion = "1"

// Violation describes one failed oracle.
type Violation struct {
	Oracle      string   `json:"oracle"`
	Fingerprint string   `json:"fingerprint"`
	Message     string   `json:"message"`
	Trace       []string `json:"trace,omitempty"`
}

func (v *Violation) Error() string { return v.Fingerprint + ": " + v.Message }

// Case is the context of one simulated case.
type Case struct {
	T        *tape.Tape
	Tier     string
	Index    uint64
	counters map[string]int64
	classes  map[string]struct{}
	trace    []string
	tracing  bool
	sig      uint64
	trivial  bool
	Sample   any // set by the property: a printable description of the case
}

// Count adds n to a named counter (fault kinds fired, operations, ...).
func (c *Case) Count(name string, n int) { c.counters[name] += int64(n) }

// Class records that a named state class was reached.
func (c *Case) Class(name string) { c.classes[name] = struct{}{} }

// Logf appends an event to the human-readable trace of the case.
func (c *Case) Logf(format string, args ...any) {
	if c.tracing && len(c.trace) < 4000 {
		c.trace = append(c.trace, fmt.Sprintf(format, args...))
	}
}

// Tracing reports whether Logf output is kept.
func (c *Case) Tracing() bool { return c.tracing }

// Sig mixes values into the signature that identifies distinct cases.
func (c *Case) Sig(vals ...uint64) {
	for _, v := range vals {
		c.sig = tape.Mix(c.sig ^ v)
	}
}

// SigString mixes a string into the case signature.
func (c *Case) SigString(s string) {
	h := uint64(1469598103934665603)
	for i := 0; i < len(s); i++ {
		h = (h ^ uint64(s[i])) * 1099511628211
	}
	c.Sig(h)
}

// Trivial marks the case as trivial (not counted in distinct_nontrivial).
func (c *Case) Trivial() { c.trivial = true }

// Fail aborts the case with a violation.
func (c *Case) Fail(oracle, location, format string, args ...any) {
	panic(&Violation{
		Oracle:      oracle,
		Fingerprint: oracle + "@" + location,
		Message:     fmt.Sprintf(format, args...),
	})
}

// PanicInfo describes a recovered panic.
type PanicInfo struct {
	Value    any
	Location string // innermost repository function
	Class    string // coarse class of the panic value
	Stack    string
}

// Guard runs fn and recovers a panic raised inside it.  Violations and
// harness bugs are passed through; step budget exhaustion and library panics
// are returned.
func (c *Case) Guard(fn func()) (pi *PanicInfo) {
	defer func() {
		r := recover()
		if r == nil {
			return
		}
		if v, ok := r.(*Violation); ok {
			panic(v)
		}
		pi = classify(r)
	}()
	fn()
	return nil
}

// MustNotPanic is Guard plus the standard "no panic, terminates" oracles.
func (c *Case) MustNotPanic(what string, fn func()) {
	if pi := c.Guard(fn); pi != nil {
		c.FailPanic(what, pi)
	}
}

// FailPanic reports a recovered panic as a violation.
func (c *Case) FailPanic(what string, pi *PanicInfo) {
	if _, ok := pi.Value.(simhook.StepBudgetExceeded); ok {
		c.Fail("no-termination", pi.Location, "%s: %v", what, pi.Value)
	}
	c.Fail("panic", pi.Location+"/"+pi.Class, "%s panicked: %v\n%s", what, pi.Value, shorten(pi.Stack))
}

func shorten(s string) string {
	lines := strings.Split(s, "\n")
	if len(lines) > 40 {
		lines = lines[:40]
	}
	return strings.Join(lines, "\n")
}

func classify(r any) *PanicInfo {
	pi := &PanicInfo{Value: r}
	var pcs [64]uintptr
	n := runtime.Callers(3, pcs[:])
	frames := runtime.CallersFrames(pcs[:n])
	var sb strings.Builder
	for {
		f, more := frames.Next()
		fmt.Fprintf(&sb, "%s\n\t%s:%d\n", f.Function, f.File, f.Line)
		if pi.Location == "" && strings.HasPrefix(f.Function, "seehuhn.de/go/sfnt") &&
			!strings.Contains(f.Function, "/zzverif/") {
			pi.Location = strings.TrimPrefix(f.Function, "seehuhn.de/go/sfnt")
			pi.Location = strings.TrimPrefix(pi.Location, "/")
		}
		if !more {
			break
		}
	}
	if pi.Location == "" {
		pi.Location = "outside-repo"
	}
	pi.Stack = sb.String()
	switch v := r.(type) {
	case runtime.Error:
		msg := v.Error()
		switch {
		case strings.Contains(msg, "index out of range"):
			pi.Class = "index-out-of-range"
		case strings.Contains(msg, "slice bounds out of range"):
			pi.Class = "slice-bounds"
		case strings.Contains(msg, "nil pointer"):
			pi.Class = "nil-deref"
		case strings.Contains(msg, "nil map"):
			pi.Class = "nil-map"
		case strings.Contains(msg, "divide by zero"):
			pi.Class = "div-zero"
		case strings.Contains(msg, "makeslice"):
			pi.Class = "makeslice"
		case strings.Contains(msg, "interface conversion"):
			pi.Class = "type-assertion"
		default:
			pi.Class = "runtime-error"
		}
	case simhook.StepBudgetExceeded:
		pi.Class = "step-budget"
	case error:
		pi.Class = "error-value"
	case string:
		pi.Class = "string"
	default:
		pi.Class = fmt.Sprintf("%T", r)
	}
	return pi
}

// Property is what a worker binary implements.
type Property struct {
	ID string
	// Run executes one case.  A violation is reported with c.Fail (or by a
	// panic that escapes c.Guard, which counts as a harness bug).
	Run func(c *Case)
	// Setup is called once per process before the first case.
	Setup func(tier string, seed uint64)
	// Plan, if set, returns the number of cases of a tier (for properties
	// whose case space is an enumeration computed from the corpus).
	Plan func(tier string, seed uint64) uint64
}

type outLine struct {
	K        string           `json:"k"`
	Case     uint64           `json:"case,omitempty"`
	V        *Violation       `json:"v,omitempty"`
	Tape     []uint64         `json:"tape,omitempty"`
	Orig     int              `json:"orig_len,omitempty"`
	Runs     int              `json:"shrink_runs,omitempty"`
	Cases    int64            `json:"cases,omitempty"`
	Nontriv  int64            `json:"nontrivial,omitempty"`
	Counters map[string]int64 `json:"counters,omitempty"`
	Classes  []string         `json:"classes,omitempty"`
	Samples  []any            `json:"samples,omitempty"`
	Msg      string           `json:"msg,omitempty"`
	WallS    float64          `json:"wall_s,omitempty"`
	Dups     map[string]int64 `json:"dups,omitempty"`
	Sig      uint64           `json:"sig,omitempty"`
}

// ReplayFile is the on-disk format of a replay file.
type ReplayFile struct {
	Property    string   `json:"property"`
	Seed        uint64   `json:"seed"`
	Case        uint64   `json:"case"`
	Tier        string   `json:"tier"`
	Harness     string   `json:"harness_version"`
	Instrument  string   `json:"instrumentation,omitempty"`
	Oracle      string   `json:"oracle"`
	Fingerprint string   `json:"fingerprint"`
	Message     string   `json:"message"`
	Tape        []uint64 `json:"tape"`
	OrigTapeLen int      `json:"orig_tape_len,omitempty"`
	ShrinkRuns  int      `json:"shrink_runs,omitempty"`
	Trace       []string `json:"trace,omitempty"`
}

// RunOnce executes one case on the given tape and returns the violation, if
// any, and the case context.
func RunOnce(p *Property, t *tape.Tape, tier string, index uint64, tracing bool) (v *Violation, c *Case) {
	c = &Case{T: t, Tier: tier, Index: index, counters: map[string]int64{}, classes: map[string]struct{}{}, tracing: tracing}
	resetHooks()
	defer func() {
		resetHooks()
		r := recover()
		if r == nil {
			return
		}
		if vv, ok := r.(*Violation); ok {
			v = vv
			v.Trace = c.trace
			return
		}
		// anything else escaped a Guard: harness bug
		pi := classify(r)
		fmt.Fprintf(os.Stderr, "HARNESS-PANIC property=%s case=%d: %v\n%s\n", p.ID, index, r, pi.Stack)
		os.Exit(2)
	}()
	p.Run(c)
	return nil, c
}

func resetHooks() {
	simhook.Mode = simhook.OrderControlled
	simhook.OrderID = 0
	simhook.SiteOverride = nil
	simhook.Record = false
	simhook.Steps = 0
	simhook.Next = ^uint64(0)
	simhook.OnStep = nil
	simhook.ChanHook = nil
	simhook.ClockReads = 0
}

// Budget arms the step counter: exceeding n steps from now panics with
// simhook.StepBudgetExceeded.
func Budget(n uint64) {
	simhook.Steps = 0
	simhook.Next = n
	simhook.OnStep = func() {
		simhook.Next = ^uint64(0)
		panic(simhook.StepBudgetExceeded{Steps: simhook.Steps})
	}
}

// Shrink minimises a failing tape: the candidate is kept iff the run still
// fails with the same fingerprint.
func Shrink(p *Property, vals []uint64, tier string, index uint64, fp string, maxRuns int, deadline time.Time) ([]uint64, int) {
	runs := 0
	try := func(cand []uint64) bool {
		if runs >= maxRuns || time.Now().After(deadline) {
			return false
		}
		runs++
		v, _ := RunOnce(p, tape.Replay(cand), tier, index, false)
		return v != nil && v.Fingerprint == fp
	}
	// first: cut to what was consumed, drop trailing zeros
	trim := func(v []uint64) []uint64 {
		for len(v) > 0 && v[len(v)-1] == 0 {
			v = v[:len(v)-1]
		}
		return v
	}
	cur := trim(vals)
	improved := true
	for improved && runs < maxRuns {
		improved = false
		// delete spans
		for _, w := range []int{64, 16, 8, 4, 2, 1} {
			for i := 0; i+w <= len(cur); {
				cand := append(append([]uint64{}, cur[:i]...), cur[i+w:]...)
				if try(cand) {
					cur = trim(cand)
					improved = true
				} else {
					i += w
				}
			}
		}
		// zero spans, then zero / halve single entries
		for _, w := range []int{16, 4} {
			for i := 0; i+w <= len(cur); i += w {
				allZero := true
				for _, x := range cur[i : i+w] {
					if x != 0 {
						allZero = false
					}
				}
				if allZero {
					continue
				}
				cand := append([]uint64{}, cur...)
				for j := i; j < i+w; j++ {
					cand[j] = 0
				}
				if try(cand) {
					cur = cand
					improved = true
				}
			}
		}
		for i := 0; i < len(cur); i++ {
			if cur[i] == 0 {
				continue
			}
			cand := append([]uint64{}, cur...)
			cand[i] = 0
			if try(cand) {
				cur = cand
				improved = true
				continue
			}
			for _, alt := range []uint64{1, cur[i] % 256, cur[i] % 65536, cur[i] / 2} {
				if alt >= cur[i] {
					continue
				}
				cand[i] = alt
				if try(cand) {
					cur = append([]uint64{}, cand...)
					improved = true
					break
				}
			}
		}
		cur = trim(cur)
	}
	return cur, runs
}

// Main is the entry point of a worker binary.
func Main(p *Property) {
	// a test binary (C19) cannot take foreign flags: it gets them through
	// the environment
	fs := flag.NewFlagSet("worker", flag.ExitOnError)
	args := os.Args[1:]
	if env := os.Getenv("VERIF_WORKER_ARGS"); env != "" {
		args = strings.Split(env, "\x1f")
	}
	seed := fs.Uint64("seed", 1, "")
	from := fs.Uint64("from", 0, "")
	to := fs.Uint64("to", 0, "")
	tier := fs.String("tier", "quick", "")
	out := fs.String("out", "", "")
	hashes := fs.String("hashes", "", "")
	replay := fs.String("replay", "", "")
	_ = fs.Bool("noshrink", false, "ignored (kept for compatibility)")
	shrink := fs.String("shrink", "", "minimise the tape of this replay file")
	tapeOut := fs.String("tapeout", "", "record every tape value of the (single) case to this file as it is drawn")
	plan := fs.Bool("plan", false, "emit the number of cases of the tier and exit")
	digest := fs.Bool("digest", false, "emit a per-case digest line (determinism self-test)")
	fs.Parse(args)
	if *out == "" {
		fmt.Fprintln(os.Stderr, "worker: -out required")
		os.Exit(2)
	}
	fd, err := os.Create(*out)
	if err != nil {
		fmt.Fprintln(os.Stderr, "worker:", err)
		os.Exit(2)
	}
	w := bufio.NewWriter(fd)
	emit := func(l *outLine) {
		b, err := json.Marshal(l)
		if err != nil {
			fmt.Fprintln(os.Stderr, "worker: marshal:", err)
			os.Exit(2)
		}
		w.Write(b)
		w.WriteByte('\n')
		w.Flush()
	}
	if p.Setup != nil {
		p.Setup(*tier, *seed)
	}
	if *plan {
		n := uint64(0)
		if p.Plan != nil {
			n = p.Plan(*tier, *seed)
		}
		emit(&outLine{K: "plan", Cases: int64(n)})
		fd.Close()
		return
	}

	if *shrink != "" {
		data, err := os.ReadFile(*shrink)
		if err != nil {
			fmt.Fprintln(os.Stderr, "worker:", err)
			os.Exit(2)
		}
		var rf ReplayFile
		if err := json.Unmarshal(data, &rf); err != nil {
			fmt.Fprintln(os.Stderr, "worker:", err)
			os.Exit(2)
		}
		emit(&outLine{K: "start", Case: rf.Case})
		v, _ := RunOnce(p, tape.Replay(rf.Tape), rf.Tier, rf.Case, false)
		if v == nil || v.Fingerprint != rf.Fingerprint {
			emit(&outLine{K: "nondeterministic", Case: rf.Case, V: &Violation{Fingerprint: rf.Fingerprint}, Tape: rf.Tape,
				Msg: "replay of the recorded tape did not reproduce the violation"})
			fd.Close()
			return
		}
		vals, runs := Shrink(p, rf.Tape, rf.Tier, rf.Case, rf.Fingerprint, 1500, time.Now().Add(45*time.Second))
		v2, _ := RunOnce(p, tape.Replay(vals), rf.Tier, rf.Case, true)
		if v2 == nil || v2.Fingerprint != rf.Fingerprint {
			emit(&outLine{K: "nondeterministic", Case: rf.Case, V: &Violation{Fingerprint: rf.Fingerprint}, Tape: vals,
				Msg: "the minimised tape stopped reproducing the violation"})
			fd.Close()
			return
		}
		emit(&outLine{K: "viol", Case: rf.Case, V: v2, Tape: vals, Orig: len(rf.Tape), Runs: runs})
		fd.Close()
		return
	}

	if *replay != "" {
		data, err := os.ReadFile(*replay)
		if err != nil {
			fmt.Fprintln(os.Stderr, "worker:", err)
			os.Exit(2)
		}
		var rf ReplayFile
		if err := json.Unmarshal(data, &rf); err != nil {
			fmt.Fprintln(os.Stderr, "worker:", err)
			os.Exit(2)
		}
		emit(&outLine{K: "start", Case: rf.Case})
		v, _ := RunOnce(p, tape.Replay(rf.Tape), rf.Tier, rf.Case, true)
		emit(&outLine{K: "replayed", Case: rf.Case, V: v})
		fd.Close()
		return
	}

	start := time.Now()
	total := &outLine{K: "summary", Counters: map[string]int64{}, Dups: map[string]int64{}}
	classes := map[string]struct{}{}
	seenFP := map[string]bool{}
	var sigs []uint64
	for i := *from; i < *to; i++ {
		emit(&outLine{K: "start", Case: i})
		t := tape.New(tape.CaseSeed(*seed, p.ID, i))
		if *tapeOut != "" {
			tfd, err := syscall.Open(*tapeOut, syscall.O_WRONLY|syscall.O_CREAT|syscall.O_TRUNC, 0o644)
			if err != nil {
				fmt.Fprintln(os.Stderr, "worker: tapeout:", err)
				os.Exit(2)
			}
			t.RecordTo(tfd)
		}
		v, c := RunOnce(p, t, *tier, i, false)
		total.Cases++
		if *digest {
			fp := ""
			if v != nil {
				fp = v.Fingerprint
			}
			emit(&outLine{K: "case", Case: i, Sig: c.sig, Orig: t.Used(), Msg: fp})
		}
		for k, n := range c.counters {
			total.Counters[k] += n
		}
		for k := range c.classes {
			classes[k] = struct{}{}
		}
		if !c.trivial && v == nil {
			total.Nontriv++
			sigs = append(sigs, c.sig)
		}
		if len(total.Samples) < 2 && c.Sample != nil && !c.trivial {
			total.Samples = append(total.Samples, c.Sample)
		}
		if v == nil {
			continue
		}
		if seenFP[v.Fingerprint] {
			total.Dups[v.Fingerprint]++
			continue
		}
		seenFP[v.Fingerprint] = true
		// minimisation is done afterwards, once per fingerprint of the whole
		// batch, by a worker started with -shrink
		emit(&outLine{K: "viol-raw", Case: i, V: v, Tape: t.Values(), Orig: t.Used()})
	}
	for k := range classes {
		total.Classes = append(total.Classes, k)
	}
	sort.Strings(total.Classes)
	total.WallS = time.Since(start).Seconds()
	if *hashes != "" {
		buf := make([]byte, 8*len(sigs))
		for i, s := range sigs {
			binary.LittleEndian.PutUint64(buf[8*i:], s)
		}
		if err := os.WriteFile(*hashes, buf, 0o644); err != nil {
			fmt.Fprintln(os.Stderr, "worker:", err)
			os.Exit(2)
		}
	}
	emit(total)
	fd.Close()
}

// BlameSites finds the map-iteration sites responsible for an order
// dependence: digest() is evaluated with order assignment `base` everywhere
// except one site at a time, which gets assignment `other`; the sites whose
// switch changes the digest are returned (sorted).
func BlameSites(base, other uint64, digest func() uint64) []string {
	simhook.SiteOverride = nil
	simhook.OrderID = other
	simhook.Record = true
	simhook.Touched = map[string]int{}
	digest()
	simhook.Record = false
	var sites []string
	for s := range simhook.Touched {
		sites = append(sites, s)
	}
	sort.Strings(sites)
	simhook.OrderID = base
	ref := digest()
	var blamed []string
	for _, s := range sites {
		simhook.SiteOverride = map[string]uint64{s: other}
		if digest() != ref {
			blamed = append(blamed, s)
		}
	}
	simhook.SiteOverride = nil
	simhook.OrderID = 0
	return blamed
}
