// Worker for C19 (a test binary, because testing/synctest needs a *testing.T;
// built with go1.26.8): builder.Parse inside a synctest bubble under a
// tape-driven scheduler that decides, at every channel operation of the
// builder package, which goroutine proceeds.
package c19

import (
	"fmt"
	"regexp"
	"runtime"
	"sort"
	"strings"
	"sync"
	"testing"
	"testing/synctest"

	"seehuhn.de/go/sfnt"
	"seehuhn.de/go/sfnt/cff"
	"seehuhn.de/go/sfnt/cmap"
	"seehuhn.de/go/sfnt/glyf"
	"seehuhn.de/go/sfnt/glyph"
	"seehuhn.de/go/sfnt/opentype/coverage"
	"seehuhn.de/go/sfnt/internal/debug"
	"seehuhn.de/go/sfnt/opentype/gtab"
	"seehuhn.de/go/sfnt/opentype/gtab/builder"
	"seehuhn.de/go/sfnt/zzverif/simgen"
	"seehuhn.de/go/sfnt/zzverif/simhook"
	"seehuhn.de/go/sfnt/zzverif/tape"
	"seehuhn.de/go/sfnt/zzverif/wk"
)

var theT *testing.T

const gsubSample = `GSUB1: A->B, M->N
GSUB1: A-C -> B-D, M->N, N->O
GSUB1: A->X, B->X, C->X, M->X, N->X
GSUB2: A -> "AA", B -> "AA", C -> "ABAAC"
GSUB3: A -> [ "BCD" ]
GSUB4: -marks A A A -> B, A -> D, A A -> C
GSUB5:
	"AAA" -> 1@0 2@1 1@0, "AAB" -> 1@0 1@1 2@0 ||
	class :alpha: = [A-K]
	class :digits: = [L-Z]
	/A B C/ :alpha: :digits: -> 2@1, :alpha: :: :digits: -> 2@2 ||
	[A B C] [A C] [A D] -> 3@0
GSUB6:
	A B | C D | E F -> 1@0 2@1, B | C D E | F -> 1@2 ||
	inputclass :ABC: = ["ABC"]
	backtrackclass :DEF: = ["DEF"]
	lookaheadclass :DEF: = ["DEF"]
	/A B C/ :DEF: :: | :ABC: | :: :DEF: -> 1@0 ||
	[A] [A B C] | [A B] [A C] [B C] | [A B C] [A B C] -> 1@0 1@1 1@2
`

const gposSample = `GPOS1: [A-C] -> y+10 ||
	D -> dx-1, E -> dx+1, F -> dx-1, G -> dx+1, H -> x+1, I -> y+1
GPOS2: A V -> dx-100, O O -> dx+100, "AW" -> dx-100
GPOS2: T E -> y+100 dx-50 & y-100
GPOS2:
	/A L V W/
	first V W, A L;
	second E O, V W;
	_, _, _,
	_, dx-50 & y-10, dx+10,
	_, dx-10 & y+10, dx-30
GPOS3:
	A: 1,1 to 2,2; B: 1,0 to 0,1; C: -1,-1 to 100,100 ||
	M: 1,1 to 2,2; N: 1,1 to 2,2
GPOS4:
	mark M: 0@100,100;
	mark N: 1@200,100;
	base A: @400,1000 @500,1000;
	base B: @500,1000 @600,900;
	base C: @500,1000 @500,-1000;
`

// extraBlocks: more lookups in the documented syntax: several subtables per
// lookup (also class-based ones that define their classes anew), all lookup
// flags, strings with escapes (meaningful for fonts that map the characters).
var extraBlocks = []string{
	"GSUB1: A->B ||\n\tC->D, E->F",
	"GSUB2: A -> \"AB\" ||\n\tB -> \"CD\"",
	"GSUB4: A B -> C ||\n\tD E -> F",
	"GSUB4: -ligs A B -> C",
	"GSUB1: -marks -ligs -base A->B",
	"GSUB2: -base -ligs A -> \"BC\"",
	"GSUB6:\n\tinputclass :i1: = [A B]\n\tlookaheadclass :l1: = [C D]\n\t/A B/ | :i1: | :l1: -> 1@0 ||\n\tinputclass :i1: = [E F]\n\tlookaheadclass :l1: = [G H]\n\tlookaheadclass :l2: = [I]\n\t/E F/ | :i1: | :l1: :l2: -> 1@0",
	"GSUB6:\n\tbacktrackclass :b1: = [A]\n\tinputclass :i1: = [B]\n\tlookaheadclass :l1: = [C D]\n\t/B/ :b1: | :i1: | :l1: -> 1@0 ||\n\tbacktrackclass :b1: = [K]\n\tinputclass :i1: = [E F]\n\tlookaheadclass :l1: = [G H]\n\tlookaheadclass :l2: = [I]\n\t/E F/ :b1: | :i1: | :l2: :l1: -> 1@0",
	"GSUB6:\n\tbacktrackclass :b1: = [A]\n\tinputclass :i1: = [B]\n\tlookaheadclass :l1: = [C D]\n\t/B/ :b1: | :i1: | :l1: -> 1@0 ||\n\tbacktrackclass :bb: = [K]\n\tinputclass :ii: = [E F]\n\tlookaheadclass :m1: = [G H]\n\tlookaheadclass :m2: = [I]\n\t/E F/ :bb: | :ii: | :m2: :m1: -> 1@0 ||\n\tinputclass :x: = [L]\n\tlookaheadclass :y: = [M N]\n\t/L/ | :x: | :y: -> 1@0",
	"GSUB5:\n\tclass :a: = [A B]\n\t/A/ :a: :a: -> 1@0 ||\n\tclass :b: = [C D]\n\tclass :c: = [E]\n\t/C/ :b: :c: -> 1@1",
	"GSUB6:\n\tA B C | D | E -> 1@0, \"KLM\" | D | \"NO\" -> 1@0",
	"GSUB1: \"\\\\\" -> A, A -> \"\\\"\"",
	"GSUB2: B -> \"A\\\\\"",
	"GSUB4: \"A\\\\\" -> B, \"\\\\\\\\\" -> C",
	"GSUB6:\n\tA \"B\\\\\" | C | D -> 1@0",
	"GPOS4:\n\tmark M: 0@1,1;\n\tbase A: @2,2 ||\n\tmark N: 0@3,3;\n\tbase B: @4,4",
	"GPOS2:\n\t/A L V W/\n\tfirst V W, , A L;\n\tsecond E O, V W;\n\t_, _, _,\n\t_, dx-50 & y-10, dx+10,\n\t_, _, _,\n\t_, dx-10 & y+10, dx-30",
	"GPOS2:\n\t/A L V/\n\tfirst V, , A;\n\tsecond E, , O;\n\t_, _, _, _,\n\t_, dx-50, _, dx+10,\n\t_, _, _, _,\n\t_, dx-10, _, dx-30",
	"GPOS1: A -> x+1 y-2 dx+3",
	"GPOS2: -base A V -> dx-100",
	"GPOS2: -marks -ligs T E -> y+100 dx-50 & y-100",
}

var (
	fontNamed   *sfnt.Font // CFF, glyph names A..Z, cmap
	fontGlyf    *sfnt.Font // Go Regular: TrueType with post names and cmap
	fontNoNames *sfnt.Font // Go Regular without glyph names
	fontNoCmap  *sfnt.Font // Go Regular without a character map
	fontSomeNames *sfnt.Font // Go Regular, every third glyph without a name
	fontExotic  *sfnt.Font // debug font whose cmap also maps non-ASCII spaces, controls and letters onto A..I
)

// exoticRunes are characters a font's character map may well contain and which
// have no plain spelling inside a quoted string (non-ASCII spaces, separators,
// soft hyphen) or are non-ASCII but printable.
var exoticRunes = []rune{0x00A0, 0x2003, 0x3000, 0x00E9, 0x2028, 0x00AD, 0xFFFD, 0x1680, 0x0416}

func setup(string, uint64) {
	fontNamed = debug.MakeSimpleFont()
	fontExotic = debug.MakeSimpleFont()
	if best, _ := fontExotic.CMapTable.GetBest(); best != nil {
		m := cmap.Format4{}
		lo, hi := best.CodeRange()
		for r := lo; r <= hi; r++ {
			if g := best.Lookup(r); g != 0 {
				m[uint16(r)] = g
			}
		}
		for i, r := range exoticRunes {
			m[uint16(r)] = best.Lookup('A' + rune(i))
		}
		fontExotic.InstallCMap(m)
	}
	fontGlyf = simgen.ReadGoFont(0)
	fontNoNames = simgen.ReadGoFont(0)
	fontNoNames.Outlines.(*glyf.Outlines).Names = nil
	fontNoCmap = simgen.ReadGoFont(0)
	fontNoCmap.CMapTable = nil
	fontSomeNames = simgen.ReadGoFont(0)
	names := fontSomeNames.Outlines.(*glyf.Outlines).Names
	for i := range names {
		if i%3 == 1 {
			names[i] = ""
		}
	}
}

// renamed returns a fresh font (debug font or Go Regular) in which the names
// of the glyphs for A, B, C ... are rotated by k places; k == 0 is the
// original.  rename applies the same rotation in place.
func freshFont(goFont bool) *sfnt.Font {
	if goFont {
		return simgen.ReadGoFont(0)
	}
	return debug.MakeSimpleFont()
}

func rename(f *sfnt.Font, k int) {
	best, _ := f.CMapTable.GetBest()
	var gids []glyph.ID
	for r := 'A'; r <= 'H'; r++ {
		gids = append(gids, best.Lookup(r))
	}
	old := make([]string, len(gids))
	for i, g := range gids {
		old[i] = f.GlyphName(g)
	}
	set := func(g glyph.ID, name string) {
		switch o := f.Outlines.(type) {
		case *glyf.Outlines:
			o.Names[g] = name
		case *cff.Outlines:
			o.Glyphs[g].Name = name
		}
	}
	for i, g := range gids {
		set(g, old[(i+k)%len(gids)])
	}
}

// runHistory: Parse must depend on the font as it is now, not on what an
// earlier call saw - the same font object is parsed with, its glyph names
// are changed in place, and it is parsed with again; a fresh font object with
// the same names must give the same result.
func runHistory(c *wk.Case) {
	t := c.T
	goFont := t.Chance(1, 2)
	k := t.Range(1, 5)
	var blocks []string
	for _, sample := range []string{gsubSample, gposSample} {
		for _, l := range lines(sample) {
			if strings.HasPrefix(l, "GSUB") && !strings.HasSuffix(l, ":") && !strings.HasSuffix(l, "||") {
				blocks = append(blocks, l)
			}
		}
	}
	text1 := blocks[t.Draw(len(blocks))] + "\n"
	text2 := blocks[t.Draw(len(blocks))] + "\n"
	c.Sample = map[string]any{"kind": "history", "go_font": goFont, "rotate": k, "first": text1, "second": text2}
	c.Logf("history: font go=%v; Parse(%q); rotate names of A..H by %d in place; Parse(%q)", goFont, text1, k, text2)
	c.SigString(fmt.Sprintf("history %v %d %s %s", goFont, k, text1, text2))
	used := freshFont(goFont)
	first := parseInBubble(c, used, text1)
	if first.panicked != nil {
		c.FailPanic("Parse", first.panicked)
	}
	rename(used, k)
	second := parseInBubble(c, used, text2)
	fresh := freshFont(goFont)
	rename(fresh, k)
	want := parseInBubble(c, fresh, text2)
	c.Count("parses", 3)
	c.Count("history_cases", 1)
	for _, o := range []outcome{first, second, want} {
		if o.panicked != nil {
			c.FailPanic("Parse", o.panicked)
		}
		if o.deadlock || len(o.leaks) > 0 {
			c.Fail("goroutine-leak", "history/"+strings.Join(dedupe(o.leaks), "+"), "goroutines left blocked: %v", o.leaks)
		}
	}
	if (second.err == nil) != (want.err == nil) || (second.err != nil && second.err.Error() != want.err.Error()) {
		c.Fail("history-dependence", "Parse/error", "after the glyph names were changed in place, Parse on the font object used before gives %v, on a fresh font object with the same names %v\n--- description\n%s", second.err, want.err, text2)
	}
	if d := simgen.DeepDiff(want.lookups, second.lookups, 0, false); d != "" {
		c.Fail("history-dependence", "Parse/lookups", "after the glyph names were changed in place, Parse on the font object used before and on a fresh font object with the same names differ: %s\n--- description\n%s", d, text2)
	}
}

var plainName = regexp.MustCompile(`^[A-Za-z_][A-Za-z0-9_]*$|^\.notdef$`)

// runRanges: "parsing means what the documented syntax says (... ranges ...)".
// A description that uses hyphenated glyph ranges - ascending, descending, down
// to glyph 0 and up to the last glyph, end points written as names or numbers -
// must parse to the same lookups as the description with every range written
// out glyph by glyph, and within a small step budget.
func runRanges(c *wk.Case) {
	t := c.T
	var font *sfnt.Font
	var fontName string
	switch t.Draw(3) {
	case 0:
		font, fontName = fontNamed, "debug(A-Z,names,cmap)"
	case 1:
		font, fontName = fontGlyf, "goregular(names,cmap)"
	default:
		font, fontName = fontNoNames, "goregular(no names,cmap)"
	}
	n := font.NumGlyphs()
	pick := func() int {
		switch t.Weighted(3, 2, 2, 5) {
		case 0:
			return 0
		case 1:
			return n - 1
		case 2:
			return t.Draw(min(n, 4))
		}
		return t.Draw(n)
	}
	spell := func(g int) string {
		if t.Chance(1, 2) {
			if name := font.GlyphName(glyph.ID(g)); plainName.MatchString(name) {
				return name
			}
		}
		return fmt.Sprint(g)
	}
	// a range a-b of at most 40 glyphs, and the same glyphs written out
	mkRange := func(maxLen int) (short, long string, k int) {
		a := pick()
		b := pick()
		if b > a+maxLen-1 {
			b = a + maxLen - 1
		} else if b < a-maxLen+1 {
			b = a - maxLen + 1
		}
		var parts []string
		step := 1
		if b < a {
			step = -1
		}
		for g := a; ; g += step {
			parts = append(parts, fmt.Sprint(g))
			if g == b {
				break
			}
		}
		// the lexer reads a hyphen directly followed by a digit as the sign
		// of a number (as Explain's writeGlyphRange documents), so the
		// hyphen is set apart from a numeric right end point
		sep := []string{"-", " - ", " -", "- "}[t.Draw(4)]
		right := spell(b)
		if right[0] >= '0' && right[0] <= '9' && !strings.HasSuffix(sep, " ") {
			sep += " "
		}
		return spell(a) + sep + right, strings.Join(parts, " "), len(parts)
	}
	var short, long string
	switch t.Draw(3) {
	case 0:
		s1, l1, _ := mkRange(40)
		short = "GPOS1: [" + s1 + "] -> y+10\n"
		long = "GPOS1: [" + l1 + "] -> y+10\n"
	case 1:
		s1, l1, k := mkRange(12)
		// a target range of the same length, ascending from a glyph that leaves room
		from := t.Draw(max(1, n-k))
		var tl []string
		for g := from; g < from+k; g++ {
			tl = append(tl, fmt.Sprint(g))
		}
		s2 := fmt.Sprintf("%d - %d", from, from+k-1)
		if k == 1 {
			s2 = fmt.Sprint(from)
		}
		short = "GSUB1: " + s1 + " -> " + s2 + "\n"
		long = "GSUB1: " + l1 + " -> " + strings.Join(tl, " ") + "\n"
	default:
		s1, l1, _ := mkRange(20)
		s2, l2, _ := mkRange(20)
		short = "GSUB5:\n\tclass :a: = [" + s1 + "]\n\tclass :b: = [" + s2 + " " + s1 + "]\n\t/" + "1/ :a: :b: -> 1@0\n"
		long = "GSUB5:\n\tclass :a: = [" + l1 + "]\n\tclass :b: = [" + l2 + " " + l1 + "]\n\t/" + "1/ :a: :b: -> 1@0\n"
	}
	c.Sample = map[string]any{"kind": "ranges", "font": fontName, "with_ranges": short, "written_out": long}
	c.Logf("ranges: font %s\n--- with ranges\n%s--- written out\n%s", fontName, short, long)
	c.SigString("ranges " + fontName + short)
	saved := parseBudget
	parseBudget = 20_000_000
	defer func() { parseBudget = saved }()
	got := parseInBubble(c, font, short)
	want := parseInBubble(c, font, long)
	c.Count("parses", 2)
	c.Count("range_cases", 1)
	res := "ok"
	if want.err != nil {
		res = "error"
	}
	c.Class("ranges|" + res)
	for _, o := range []outcome{got, want} {
		if o.panicked != nil {
			c.FailPanic("Parse", o.panicked)
		}
		if o.deadlock || len(o.leaks) > 0 {
			c.Fail("goroutine-leak", "ranges/"+strings.Join(dedupe(o.leaks), "+"), "goroutines left blocked: %v", o.leaks)
		}
	}
	if (got.err == nil) != (want.err == nil) {
		c.Fail("range-meaning", "Parse/error", "the description with ranges gives error %v, the same description with the ranges written out gives %v\n--- with ranges\n%s--- written out\n%s", got.err, want.err, short, long)
	}
	if got.err == nil {
		c.Count("range_cases_parsed", 1)
		if d := simgen.DeepDiff(want.lookups, got.lookups, 0, false); d != "" {
			c.Fail("range-meaning", "Parse/lookups", "the description with ranges and the same description with the ranges written out differ: %s\n--- with ranges\n%s--- written out\n%s", d, short, long)
		}
	}
}

// ---- the scheduler inside the bubble -------------------------------------------------

type parked struct {
	site string
	seq  int
	ch   chan struct{}
}

type bubbleSched struct {
	mu     sync.Mutex
	parked []*parked
	count  map[string]int
}

func (s *bubbleSched) hook(site string) {
	p := &parked{site: site, ch: make(chan struct{})}
	s.mu.Lock()
	p.seq = s.count[site]
	s.count[site]++
	s.parked = append(s.parked, p)
	s.mu.Unlock()
	<-p.ch // durably blocked until the scheduler releases this goroutine
}

// take removes and returns the parked goroutine chosen by the tape.
func (s *bubbleSched) take(t *tape.Tape) *parked {
	s.mu.Lock()
	defer s.mu.Unlock()
	if len(s.parked) == 0 {
		return nil
	}
	sort.Slice(s.parked, func(i, j int) bool {
		if s.parked[i].site != s.parked[j].site {
			return s.parked[i].site < s.parked[j].site
		}
		return s.parked[i].seq < s.parked[j].seq
	})
	i := t.Draw(len(s.parked))
	p := s.parked[i]
	s.parked = append(s.parked[:i], s.parked[i+1:]...)
	return p
}

var builderFrame = regexp.MustCompile(`seehuhn\.de/go/sfnt/opentype/gtab/builder\.([^\s(]+(?:\([^)]*\))?[^\s(]*)\(`)

var goroutineHeader = regexp.MustCompile(`^goroutine (\d+) `)

func allStacks() []string {
	size := 1 << 20
	for {
		buf := make([]byte, size)
		n := runtime.Stack(buf, true)
		if n < size {
			return strings.Split(string(buf[:n]), "\n\n")
		}
		size *= 4
	}
}

// goroutineIDs returns the ids of all goroutines alive now (goroutines left
// behind by earlier violating cases of this process must not be attributed
// to the current one).
func goroutineIDs() map[string]bool {
	ids := map[string]bool{}
	for _, g := range allStacks() {
		if m := goroutineHeader.FindStringSubmatch(g); m != nil {
			ids[m[1]] = true
		}
	}
	return ids
}

// leaked lists the builder functions of goroutines that are still alive and
// were not alive at baseline.
func leaked(baseline map[string]bool) []string {
	var res []string
	for _, g := range allStacks() {
		if strings.Contains(g, "c19.leaked") {
			continue // the calling goroutine
		}
		if m := goroutineHeader.FindStringSubmatch(g); m != nil && baseline[m[1]] {
			continue
		}
		if m := builderFrame.FindStringSubmatch(g); m != nil {
			state := ""
			if i := strings.Index(g, "["); i >= 0 {
				if j := strings.Index(g[i:], "]"); j > 0 {
					state = g[i+1 : i+j]
					if k := strings.Index(state, ","); k > 0 {
						state = state[:k]
					}
				}
			}
			res = append(res, m[1]+" ["+state+"]")
		}
	}
	sort.Strings(res)
	return res
}

type outcome struct {
	lookups   gtab.LookupList
	err       error
	panicked  *wk.PanicInfo
	deadlock  bool
	leaks     []string
	steps     int
	schedule  []string
	bubbleMsg string
}

// parseInBubble runs builder.Parse(font, text) under the tape-driven
// scheduler.
func parseInBubble(c *wk.Case, font *sfnt.Font, text string) (out outcome) {
	defer func() {
		if r := recover(); r != nil {
			// the end-of-bubble report ("blocked goroutines remain") or any
			// other panic of the bubble machinery
			if v, ok := r.(*wk.Violation); ok {
				panic(v)
			}
			out.bubbleMsg = fmt.Sprint(r)
		}
	}()
	baseline := goroutineIDs()
	synctest.Test(theT, func(*testing.T) {
		s := &bubbleSched{count: map[string]int{}}
		simhook.ChanHook = s.hook
		defer func() { simhook.ChanHook = nil }()
		done := false
		go func() {
			pi := c.Guard(func() {
				wk.Budget(parseBudget)
				out.lookups, out.err = builder.Parse(font, text)
			})
			simhook.Next = ^uint64(0)
			out.panicked = pi
			done = true
		}()
		for {
			synctest.Wait()
			p := s.take(c.T)
			if p == nil {
				if !done {
					out.deadlock = true
				}
				break
			}
			out.steps++
			if len(out.schedule) < 400 {
				out.schedule = append(out.schedule, fmt.Sprintf("%s#%d", p.site[strings.LastIndex(p.site, "/")+1:], p.seq))
			}
			close(p.ch)
		}
		synctest.Wait()
		out.leaks = leaked(baseline)
	})
	return out
}

// ---- workload ---------------------------------------------------------------------

func lines(s string) []string { return strings.Split(strings.TrimRight(s, "\n"), "\n") }

var tokenRe = regexp.MustCompile(`"(?:[^"\\]|\\.)*"|->|\|\||[A-Za-z_.][A-Za-z0-9_.]*|[+-]?[0-9]+|\S`)

func mutate(t *tape.Tape, text string) (string, string) {
	locs := tokenRe.FindAllStringIndex(text, -1)
	if len(locs) == 0 {
		return text + "$", "append-$"
	}
	i := t.Draw(len(locs))
	a, b := locs[i][0], locs[i][1]
	tok := text[a:b]
	repl := []string{"->", "||", "|", ",", ";", ":", "[", "]", "@", "/", "&", "=", "-", "A", "zzz", "7", "-3", "\"AB\"", "class", "GSUB4:", "$", "\x00", "\"", "\\"}
	switch t.Weighted(3, 2, 2, 4, 2, 2, 3, 2, 1) {
	case 0:
		return text[:a] + text[b:], "delete-token"
	case 1:
		return text[:b] + " " + tok + text[b:], "duplicate-token"
	case 2:
		j := t.Draw(len(locs))
		if j == i {
			return text[:a] + text[b:], "delete-token"
		}
		a2, b2 := locs[j][0], locs[j][1]
		if a2 < a {
			a, b, a2, b2 = a2, b2, a, b
		}
		return text[:a] + text[a2:b2] + text[b:a2] + text[a:b] + text[b2:], "swap-tokens"
	case 3:
		return text[:a] + repl[t.Draw(len(repl))] + text[b:], "replace-token"
	case 4:
		k := a + t.Draw(b-a+1)
		return text[:k], "truncate"
	case 5:
		// unterminated string
		if strings.HasPrefix(tok, "\"") && len(tok) > 1 {
			return text[:b-1] + text[b:], "unterminated-string"
		}
		return text[:a] + "\"" + text[a:], "unterminated-string"
	case 6:
		// an unmapped rune at a tape-chosen position of a string
		for k := 0; k < len(locs); k++ {
			j := (i + k) % len(locs)
			s := text[locs[j][0]:locs[j][1]]
			if strings.HasPrefix(s, "\"") && len(s) >= 2 {
				inner := []rune(s[1 : len(s)-1])
				pos := t.Draw(len(inner) + 1)
				bad := []rune{0x4E00, 0x4E01, 0x10FFFF, 1}[t.Draw(4)]
				inner = append(inner[:pos], append([]rune{bad}, inner[pos:]...)...)
				return text[:locs[j][0]] + "\"" + string(inner) + "\"" + text[locs[j][1]:], "unmapped-rune-in-string"
			}
		}
		return text[:a] + "\"A\u4e00B\"" + text[b:], "unmapped-rune-in-string"
	case 7:
		return text[:a] + "\x00" + text[a:], "nul-byte"
	default:
		return text[:a] + "$" + text[a:], "stray-$"
	}
}

// constructed is set by genText for kind "constructed": the lookup list the
// text was derived from (with Explain, unmutated) and whether it is GSUB.
type constructed struct {
	ll   gtab.LookupList
	gsub bool
	gen  *simgen.ExprGen
}

func genText(c *wk.Case) (font *sfnt.Font, fontName, text, kind string, cons *constructed) {
	t := c.T
	switch t.Weighted(10, 4, 4, 1, 3, 4) {
	case 5:
		font, fontName = fontExotic, "debug(A-Z,names,cmap with non-ASCII spaces and letters)"
	case 4:
		font, fontName = fontSomeNames, "goregular(every third glyph unnamed,cmap)"
	case 0:
		font, fontName = fontNamed, "debug(A-Z,names,cmap)"
	case 1:
		font, fontName = fontGlyf, "goregular(names,cmap)"
	case 2:
		font, fontName = fontNoNames, "goregular(no names,cmap)"
	default:
		font, fontName = fontNoCmap, "goregular(names,no cmap)"
	}
	what := t.Weighted(5, 3, 1, 3)
	if what == 3 && font.CMapTable == nil {
		what = 0 // Parse refuses a font without a character map
	}
	switch what {
	case 3:
		// Explain of a lookup list constructed inside the domain the language
		// has syntax for (simgen.ExprGen), unmutated: judged strictly
		g := &simgen.ExprGen{T: t, N: min(font.NumGlyphs(), 60)}
		if best, _ := font.CMapTable.GetBest(); best != nil {
			for _, r := range append([]rune{'\\', '"', 'n', 't', '-', ']', 'A', 'f', 'x', 'y'}, exoticRunes...) {
				if gid := best.Lookup(r); gid != 0 && int(gid) < g.N {
					g.Hot = append(g.Hot, gid)
				}
			}
		}
		cons = &constructed{gsub: t.Chance(1, 2), gen: g}
		cons.ll = g.List(cons.gsub)
		f2 := font.Clone()
		simhook.OrderID = uint64(t.Draw(4)) // Explain ranges over coverage maps
		pi := c.Guard(func() {
			if cons.gsub {
				f2.Gsub = &gtab.Info{LookupList: cons.ll}
				text = builder.ExplainGsub(f2)
			} else {
				f2.Gpos = &gtab.Info{LookupList: cons.ll}
				text = strings.Join(builder.ExplainGpos(f2), "\n")
			}
		})
		simhook.OrderID = 0
		if pi != nil {
			c.FailPanic("Explain(constructed lookups)", pi)
		}
		kind = "constructed"
		return
	case 0:
		// sample-derived: a tape-chosen subset of the lookups of the samples
		var blocks []string
		for _, sample := range []string{gsubSample, gposSample} {
			var cur []string
			for _, l := range lines(sample) {
				if strings.HasPrefix(l, "G") && len(cur) > 0 {
					blocks = append(blocks, strings.Join(cur, "\n"))
					cur = nil
				}
				cur = append(cur, l)
			}
			blocks = append(blocks, strings.Join(cur, "\n"))
		}
		nRepo := len(blocks)
		blocks = append(blocks, extraBlocks...)
		n := t.Range(1, 4)
		var sel []string
		onlyRepo := true
		for i := 0; i < n; i++ {
			k := t.Draw(len(blocks))
			if k >= nRepo {
				onlyRepo = false
			}
			sel = append(sel, blocks[k])
		}
		text = strings.Join(sel, "\n") + "\n"
		kind = "sample"
		if onlyRepo {
			kind = "sample-repo"
		}
	case 1:
		// Explain of generated lookups
		g := &simgen.LookupGen{T: t, N: min(font.NumGlyphs(), 60)}
		if best, _ := font.CMapTable.GetBest(); best != nil {
			// glyphs whose characters need escaping or are special in the notation
			for _, r := range append([]rune{'\\', '"', 'n', 't', '-', ']', 'A', 'f'}, exoticRunes...) {
				if gid := best.Lookup(r); gid != 0 {
					g.Hot = append(g.Hot, gid)
				}
			}
		}
		if t.Chance(1, 3) {
			g.CtxFormat = 1 + t.Draw(3) // several subtables of one format in a lookup
		}
		gsub := t.Chance(1, 2)
		f2 := font.Clone()
		bigLig := gsub && t.Chance(1, 3)
		simhook.OrderID = uint64(t.Draw(4)) // Explain ranges over coverage maps
		pi := c.Guard(func() {
			if bigLig {
				// many ligatures sharing few first glyphs: their order is
				// significant (the first match wins)
				firsts := g.GlyphSet(6)
				sub := &gtab.Gsub4_1{Cov: coverage.Table{}}
				for i, first := range firsts {
					sub.Cov[first] = i
					var ligs []gtab.Ligature
					for j := t.Range(2, 6); j > 0; j-- {
						var in []glyph.ID
						for k := t.Range(1, 3); k > 0; k-- {
							in = append(in, g.GlyphSet(1)[0])
						}
						ligs = append(ligs, gtab.Ligature{In: in, Out: g.GlyphSet(1)[0]})
					}
					sub.Repl = append(sub.Repl, ligs)
				}
				f2.Gsub = &gtab.Info{LookupList: gtab.LookupList{{Meta: &gtab.LookupMetaInfo{LookupType: 4}, Subtables: []gtab.Subtable{sub}}}}
				text = builder.ExplainGsub(f2)
			} else if gsub {
				info := &gtab.Info{}
				for i := t.Range(1, 3); i > 0; i-- {
					tp := uint16(t.Range(1, 6))
					g.NumLookups = 3
					lt := &gtab.LookupTable{Meta: &gtab.LookupMetaInfo{LookupType: tp}}
					for k := 1 + t.Weighted(3, 2, 1); k > 0; k-- {
						lt.Subtables = append(lt.Subtables, g.GsubSubtable(tp))
					}
					info.LookupList = append(info.LookupList, lt)
				}
				f2.Gsub = info
				text = builder.ExplainGsub(f2)
			} else {
				info := &gtab.Info{}
				for i := t.Range(1, 3); i > 0; i-- {
					tp := []uint16{1, 2, 4}[t.Draw(3)]
					lt := &gtab.LookupTable{Meta: &gtab.LookupMetaInfo{LookupType: tp}}
					for k := 1 + t.Weighted(3, 2, 1); k > 0; k-- {
						lt.Subtables = append(lt.Subtables, g.GposSubtable(tp))
					}
					info.LookupList = append(info.LookupList, lt)
				}
				f2.Gpos = info
				text = strings.Join(builder.ExplainGpos(f2), "\n")
			}
		})
		simhook.OrderID = 0
		if pi != nil {
			text = gsubSample
		}
		kind = "explain"
		if bigLig {
			kind = "explain-ligatures"
		}
	default:
		text = string(t.Bytes(t.Range(0, 60)))
		kind = "byte-soup"
	}
	if kind != "byte-soup" {
		nm := t.Weighted(3, 4, 2, 1)
		for i := 0; i < nm; i++ {
			var what string
			text, what = mutate(t, text)
			kind += "+" + what
		}
	}
	return
}

// parseBudget is the step budget of one Parse call (termination oracle).
var parseBudget uint64 = 300_000_000

var lineNo = regexp.MustCompile(`^(\d+):`)

func run(c *wk.Case) {
	if c.T.Chance(1, 12) {
		runHistory(c)
		return
	}
	if c.T.Chance(1, 10) {
		runRanges(c)
		return
	}
	font, fontName, text, kind, cons := genText(c)
	c.Sample = map[string]any{"font": fontName, "kind": kind, "text": text}
	c.Logf("font %s, text kind %s:\n%s", fontName, kind, text)
	c.SigString(fontName + "\x00" + text)

	out := parseInBubble(c, font, text)
	c.Sig(simgen.Digest(out.schedule))
	c.Count("parses", 1)
	c.Count("scheduler_releases", out.steps)
	c.Logf("schedule (%d releases): %s", out.steps, strings.Join(out.schedule, " "))
	res := "ok"
	if out.err != nil {
		res = "error"
	}
	c.Class(strings.SplitN(kind, "+", 2)[0] + "|" + res)
	for _, k := range strings.Split(kind, "+")[1:] {
		c.Class("mutation|" + k + "|" + res)
	}

	if out.panicked != nil {
		c.FailPanic("Parse", out.panicked)
	}
	if out.deadlock {
		c.Fail("deadlock", "Parse", "all goroutines are blocked and Parse has not returned; blocked in: %v", out.leaks)
	}
	if len(out.leaks) > 0 {
		c.Fail("goroutine-leak", strings.Join(dedupe(out.leaks), "+"), "Parse returned (err=%v) but goroutines started by it are still blocked: %v", out.err, out.leaks)
	}
	if out.bubbleMsg != "" {
		c.Fail("goroutine-leak", "bubble", "Parse returned (err=%v) and the bubble reports: %s", out.err, out.bubbleMsg)
	}
	if out.err != nil && kind == "sample-repo" && (font == fontGlyf || font == fontNamed) {
		// an unmutated selection of lookups from the repository's own
		// examples of the syntax (parser_test.go), on a font that has all the
		// glyph names and characters they mention.  (The extra blocks are the
		// harness author's reading of the syntax and are not judged this way.)
		c.Fail("documented-syntax-rejected", errClass(text, out.err), "a description in the documented syntax is rejected: %v\n--- description\n%s", out.err, text)
	}
	if out.err != nil && cons != nil {
		// the lookup list was constructed inside the domain the language has
		// syntax for, and the text is what Explain wrote for it
		c.Fail("notation-round-trip", "constructed-rejected/"+errClass(text, out.err), "the description Explain writes for an expressible lookup list is rejected by Parse: %v\n--- description\n%s", out.err, text)
	}
	if out.err == nil && cons != nil {
		c.Count("constructed_lookup_lists_described_and_parsed", 1)
		if len(out.lookups) != len(cons.ll) {
			c.Fail("notation-round-trip", "constructed-different/number-of-lookups", "%d lookups were described, %d came back\n--- description\n%s", len(cons.ll), len(out.lookups), text)
		}
		for i, lt := range out.lookups {
			if lt.Meta.LookupType != cons.ll[i].Meta.LookupType || lt.Meta.LookupFlags != cons.ll[i].Meta.LookupFlags {
				c.Fail("notation-round-trip", "constructed-different/type-or-flags", "lookup %d: type %d flags %#x were described, type %d flags %#x came back\n--- description\n%s",
					i, cons.ll[i].Meta.LookupType, cons.ll[i].Meta.LookupFlags, lt.Meta.LookupType, lt.Meta.LookupFlags, text)
			}
		}
		// the parsed list must act like the described one (formats may be
		// chosen differently, so the comparison is by behaviour)
		var all []gtab.LookupIndex
		for i := range cons.ll {
			all = append(all, gtab.LookupIndex(i))
		}
		for k := 0; k < 6; k++ {
			seq := make([]glyph.Info, c.T.Range(1, 8))
			for i := range seq {
				seq[i] = glyph.Info{GID: cons.gen.GID(), Text: []rune{rune('a' + i)}}
			}
			var want, got []glyph.Info
			p1 := c.Guard(func() { want = gtab.NewContext(cons.ll, nil, all).Apply(append([]glyph.Info(nil), seq...)) })
			p2 := c.Guard(func() { got = gtab.NewContext(out.lookups, nil, all).Apply(append([]glyph.Info(nil), seq...)) })
			if p1 != nil || p2 != nil {
				c.Count("constructed_apply_panicked_(C07,_not_judged_here)", 1)
				continue
			}
			c.Count("constructed_behaviour_comparisons", 1)
			if d := simgen.DeepDiff(want, got, 0, false); d != "" {
				c.Fail("notation-round-trip", "constructed-behaves-differently/"+fmt.Sprintf("type%d", cons.ll[0].Meta.LookupType), "Parse(Explain(L)) acts differently from L on the glyph sequence %v: %s\n--- description\n%s", gidsOf(seq), d, text)
			}
		}
	}
	if out.err != nil && (kind == "explain" || kind == "explain-ligatures") {
		// Not judged: whether generated lookups are "expressible" would have
		// to be taken on trust from the generator (shapes the encoder
		// normalises, glyphs whose names need quoting, ...).  The round trip
		// is judged below for lookup lists that came out of Parse.
		c.Count("explain_output_of_generated_lookups_rejected_(not_judged)", 1)
	}
	if out.err != nil {
		c.Count("parse_errors", 1)
		nl := strings.Count(text, "\n") + 1
		m := lineNo.FindStringSubmatch(out.err.Error())
		ok := false
		if m != nil {
			var n int
			fmt.Sscan(m[1], &n)
			ok = n >= 1 && n <= nl+1
		}
		if !ok && font.CMapTable == nil {
			// Parse refuses a font without a character map before it looks
			// at the text; that error is about the font, not about a line
			c.Count("font_without_cmap_refused_(line_number_not_judged)", 1)
		} else if !ok {
			c.Fail("error-without-line", "Parse", "the error %q does not carry a line number between 1 and %d", out.err.Error(), nl+1)
		}
		return
	}
	c.Count("parse_ok", 1)

	// ---- incidental: notation round trip Parse(Explain(L)) == L for L = Parse(text)
	isGpos := strings.Contains(text, "GPOS")
	isGsub := strings.Contains(text, "GSUB")
	if isGpos == isGsub || len(out.lookups) == 0 {
		return
	}
	f2 := font.Clone()
	var text2 string
	simhook.OrderID = uint64(c.T.Draw(4))
	defer func() { simhook.OrderID = 0 }()
	pi := c.Guard(func() {
		if isGsub {
			f2.Gsub = &gtab.Info{LookupList: out.lookups}
			text2 = builder.ExplainGsub(f2)
		} else {
			f2.Gpos = &gtab.Info{LookupList: out.lookups}
			text2 = strings.Join(builder.ExplainGpos(f2), "\n")
		}
	})
	if pi != nil {
		c.FailPanic("Explain(Parse(text))", pi)
	}
	out2 := parseInBubble(c, font, text2)
	if out2.panicked != nil {
		c.FailPanic("Parse(Explain(..))", out2.panicked)
	}
	if out2.deadlock || len(out2.leaks) > 0 {
		c.Fail("goroutine-leak", "Parse(Explain)/"+strings.Join(dedupe(out2.leaks), "+"), "re-parsing the explained text left goroutines blocked: %v", out2.leaks)
	}
	if out2.err != nil {
		c.Fail("notation-round-trip", "reparse-error/"+errClass(text2, out2.err), "the description produced by Explain is rejected by Parse: %v\n--- description\n%s", out2.err, text2)
	}
	if d := simgen.DeepDiff(out.lookups, out2.lookups, 0, false); d != "" {
		c.Fail("notation-round-trip", "different-lookups", "Parse(Explain(L)) differs from L: %s\n--- description\n%s", d, text2)
	}
	c.Count("notation_round_trips_(incidental)", 1)
}

func gidsOf(seq []glyph.Info) []glyph.ID {
	var r []glyph.ID
	for _, g := range seq {
		r = append(r, g.GID)
	}
	return r
}

var quoted = regexp.MustCompile(`"[^"]*"|[0-9]+`)

// errClass summarises (kind of the lookup in which the error occurs, error
// message without line numbers and quoted tokens).
func errClass(text string, err error) string {
	msg := err.Error()
	line := 0
	fmt.Sscan(msg, &line)
	kind := "?"
	ll := strings.Split(text, "\n")
	for i := 0; i < len(ll) && i < line; i++ {
		if strings.HasPrefix(ll[i], "GSUB") || strings.HasPrefix(ll[i], "GPOS") {
			kind = ll[i][:5]
		}
	}
	if i := strings.Index(msg, ": "); i >= 0 {
		msg = msg[i+2:]
	}
	if i := strings.Index(msg, ": "); i >= 0 && i < 12 {
		msg = msg[i+2:]
	}
	msg = quoted.ReplaceAllString(msg, "_")
	for _, pre := range []string{"unknown lookup flag", "undefined class", "empty class", "duplicate"} {
		if strings.HasPrefix(msg, pre) {
			msg = pre // the rest names a token of the text
		}
	}
	if len(msg) > 40 {
		msg = msg[:40]
	}
	return kind + "/" + msg
}

func dedupe(s []string) []string {
	var res []string
	for i, x := range s {
		if i == 0 || x != s[i-1] {
			res = append(res, x)
		}
	}
	return res
}

func TestWorker(t *testing.T) {
	theT = t
	wk.Main(&wk.Property{ID: "C19", Run: run, Setup: setup})
}
