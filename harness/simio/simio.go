// Package simio holds the simulated writer, readers and disk: the only
// "network and storage" go-sfnt ever sees is the io.Reader / io.ReaderAt /
// io.ReadSeeker / io.Writer values handed to it, so these types are the whole
// I/O world of the simulation.  Every behaviour is either fixed by an explicit
// plan or drawn from the case's choice tape; fault kinds are counted when they
// fire, not when they are configured.
package simio

import (
	"errors"
	"io"

	"seehuhn.de/go/sfnt/zzverif/tape"
)

// ErrInjected is the error every injected (non-EOF) fault returns.
var ErrInjected = errors.New("simio: injected I/O error")

// ---- writer -------------------------------------------------------------

// WriteCall records one Write call as seen by the simulated destination.
type WriteCall struct {
	Off      int64 // offset of the first byte of the call
	Len      int   // length requested
	Accepted int   // bytes accepted
	Failed   bool
}

// Writer is a fault-injecting io.Writer backed by an in-memory "disk".
type Writer struct {
	Disk  []byte      // bytes accepted so far
	Calls []WriteCall // every call
	// FailAt >= 0: the call that contains absolute byte offset FailAt (or,
	// if a call starts exactly at FailAt, that call) fails.  -1: never.
	FailAt int64
	// Mode selects how much of the failing call is accepted:
	// 0 = up to FailAt (exactly k bytes accepted in total),
	// 1 = nothing of the failing call,
	// 2 = everything of the failing call (n == len, err != nil),
	// 3 = all but one byte.
	Mode int
	// Transient: only the one call fails; later calls succeed again.
	// Otherwise, once a fault fired every later call fails accepting nothing.
	Transient  bool
	Fired      bool
	AfterFault int // calls made after the fault fired
	Yield      func()
	// Err is the error a failing call returns (nil = ErrInjected).  Real
	// destinations fail with all kinds of values, among them the standard
	// io.ErrShortWrite (bufio.Writer after a short write of what it wraps).
	Err error
}

// Storm is the panic value of a destination that has failed for good and is
// called again and again: the caller retries without making progress.
type Storm struct{ Calls int }

// StormLimit is the number of calls after a permanent failure at which the
// simulated destination gives up.
const StormLimit = 20000

func (w *Writer) err() error {
	if w.Err != nil {
		return w.Err
	}
	return ErrInjected
}

// NewWriter returns a writer that never fails.
func NewWriter() *Writer { return &Writer{FailAt: -1} }

func (w *Writer) Write(p []byte) (int, error) {
	if w.Yield != nil {
		w.Yield()
	}
	off := int64(len(w.Disk))
	if w.Fired && w.Transient {
		w.AfterFault++
		w.Disk = append(w.Disk, p...)
		w.Calls = append(w.Calls, WriteCall{Off: off, Len: len(p), Accepted: len(p)})
		return len(p), nil
	}
	if w.Fired {
		w.AfterFault++
		if w.AfterFault > StormLimit {
			panic(Storm{w.AfterFault})
		}
		if w.AfterFault < 64 {
			w.Calls = append(w.Calls, WriteCall{Off: off, Len: len(p), Failed: true})
		}
		return 0, w.err()
	}
	end := off + int64(len(p))
	hit := w.FailAt >= 0 && w.FailAt < end
	if !hit {
		w.Disk = append(w.Disk, p...)
		w.Calls = append(w.Calls, WriteCall{Off: off, Len: len(p), Accepted: len(p)})
		return len(p), nil
	}
	var n int
	switch w.Mode {
	case 0:
		n = int(w.FailAt - off)
	case 1:
		n = 0
	case 2:
		n = len(p)
	case 3:
		n = len(p) - 1
	}
	if n < 0 {
		n = 0
	}
	if n > len(p) {
		n = len(p)
	}
	w.Disk = append(w.Disk, p[:n]...)
	w.Fired = true
	w.Calls = append(w.Calls, WriteCall{Off: off, Len: len(p), Accepted: n, Failed: true})
	return n, w.err()
}

// ---- random access reader ---------------------------------------------------

// Range is a half-open byte range.
type Range struct{ From, To int64 }

// ReaderAt is a fault-injecting io.ReaderAt over a byte slice.
type ReaderAt struct {
	Data []byte
	// FailFrom >= 0: any access touching an offset >= FailFrom returns
	// ErrInjected (bytes below FailFrom are still delivered). -1: never.
	FailFrom int64
	// FailTo >= 0 bounds the failing region to [FailFrom, FailTo) ("bad
	// sector"); -1 = everything from FailFrom on fails.
	FailTo int64
	// EOFStyle: 0 = a read ending exactly at the end of the data returns
	// (n, nil); 1 = it returns (n, io.EOF).  Both are legal.
	EOFStyle int
	Faults   int     // number of injected errors actually returned
	EOFs     int     // number of EOF results returned
	Calls    int     // number of ReadAt calls
	MaxEnd   int64   // highest offset requested (exclusive)
	Reqs     []Range // requested ranges (only if Record)
	Record   bool
	Yield    func()
	SeqReads int // calls of the sequential Read method
	seqPos   int64
}

// NewReaderAt returns a reader that serves data without faults.
func NewReaderAt(data []byte) *ReaderAt { return &ReaderAt{Data: data, FailFrom: -1, FailTo: -1} }

func (r *ReaderAt) ReadAt(p []byte, off int64) (int, error) {
	if r.Yield != nil {
		r.Yield()
	}
	r.Calls++
	if off < 0 {
		return 0, errors.New("simio: negative offset")
	}
	end := off + int64(len(p))
	if end > r.MaxEnd {
		r.MaxEnd = end
	}
	if r.Record {
		r.Reqs = append(r.Reqs, Range{off, end})
	}
	size := int64(len(r.Data))
	limit := size
	fail := false
	if r.FailFrom >= 0 && end > r.FailFrom && len(p) > 0 && (r.FailTo < 0 || off < r.FailTo) {
		// the access touches a failing offset (if that offset exists or not:
		// the device fails before it can tell)
		if r.FailFrom < limit {
			limit = r.FailFrom
			fail = true
		} else if end > size {
			// beyond the end of data and beyond FailFrom: EOF comes first
			// only if the data ends before the failing region
			fail = false
		}
	}
	n := 0
	if off < limit {
		n = copy(p, r.Data[off:limit])
	}
	if n == len(p) {
		if !fail && end == size && r.EOFStyle == 1 && len(p) > 0 {
			r.EOFs++
			return n, io.EOF
		}
		return n, nil
	}
	if fail {
		r.Faults++
		return n, ErrInjected
	}
	r.EOFs++
	return n, io.EOF
}

// SizedReaderAt adds Size to ReaderAt.
type SizedReaderAt struct{ *ReaderAt }

// Size returns the length of the underlying data.
func (r SizedReaderAt) Size() int64 { return int64(len(r.Data)) }

// ---- streaming reader -------------------------------------------------------

// Reader is a fault-injecting io.Reader (no ReaderAt, no Seek).
type Reader struct {
	Data []byte
	Pos  int64
	// FailFrom >= 0: bytes below FailFrom are delivered, then ErrInjected.
	FailFrom int64
	// T, if non-nil, chooses read splits and EOF forms.
	T          *tape.Tape
	ShortReads int
	ZeroReads  int
	Faults     int
	EOFs       int
	lastZero   bool
	Yield      func()
}

// NewReader returns a streaming reader.
func NewReader(data []byte, t *tape.Tape) *Reader { return &Reader{Data: data, FailFrom: -1, T: t} }

func (r *Reader) Read(p []byte) (int, error) {
	if r.Yield != nil {
		r.Yield()
	}
	if len(p) == 0 {
		return 0, nil
	}
	limit := int64(len(r.Data))
	fail := false
	if r.FailFrom >= 0 && r.FailFrom < limit {
		limit = r.FailFrom
		fail = true
	}
	avail := limit - r.Pos
	if avail <= 0 {
		if fail {
			r.Faults++
			return 0, ErrInjected
		}
		r.EOFs++
		return 0, io.EOF
	}
	n := int64(len(p))
	if n > avail {
		n = avail
	}
	if r.T != nil {
		switch r.T.Weighted(10, 4, 1) {
		case 1:
			if n > 1 {
				n = 1 + int64(r.T.Draw(int(n-1)))
				r.ShortReads++
			}
		case 2:
			if !r.lastZero {
				r.lastZero = true
				r.ZeroReads++
				return 0, nil
			}
		}
	}
	r.lastZero = false
	copy(p, r.Data[r.Pos:r.Pos+n])
	r.Pos += n
	if r.Pos == limit && r.T != nil && r.T.Chance(1, 3) {
		// deliver the end condition together with the last bytes
		if fail {
			r.Faults++
			return int(n), ErrInjected
		}
		r.EOFs++
		return int(n), io.EOF
	}
	return int(n), nil
}

// ---- read-seek-sizer -----------------------------------------------------------

// SeekCall / ReadCall logging for the parser model (C17).
type RSSEvent struct {
	Seek bool
	Off  int64 // seek target (absolute) or position before the read
	Len  int   // requested length (read)
	N    int   // bytes delivered (read)
	EOF  bool
}

// ReadSeekSizer implements parser.ReadSeekSizer over a byte slice with
// tape-chosen short reads and EOF forms.
type ReadSeekSizer struct {
	Data       []byte
	Pos        int64
	T          *tape.Tape
	FailFrom   int64 // -1: never; otherwise ErrInjected once Pos reaches it
	ShortReads int
	ZeroReads  int
	EOFData    int // (n>0, EOF)
	EOFBare    int // (0, EOF)
	Faults     int
	Seeks      int
	Reads      int
	lastZero   bool
	Events     []RSSEvent
	Record     bool
}

// NewReadSeekSizer returns a reader without faults; t may be nil for plain
// behaviour (full reads, bare EOF).
func NewReadSeekSizer(data []byte, t *tape.Tape) *ReadSeekSizer {
	return &ReadSeekSizer{Data: data, T: t, FailFrom: -1}
}

// Size implements parser.ReadSeekSizer.
func (r *ReadSeekSizer) Size() int64 { return int64(len(r.Data)) }

// Seek implements io.Seeker; seeking beyond the end is allowed, before the
// start is an error, as for os.File and bytes.Reader.
func (r *ReadSeekSizer) Seek(offset int64, whence int) (int64, error) {
	r.Seeks++
	var abs int64
	switch whence {
	case io.SeekStart:
		abs = offset
	case io.SeekCurrent:
		abs = r.Pos + offset
	case io.SeekEnd:
		abs = int64(len(r.Data)) + offset
	default:
		return 0, errors.New("simio: invalid whence")
	}
	if abs < 0 {
		return 0, errors.New("simio: negative position")
	}
	r.Pos = abs
	if r.Record {
		r.Events = append(r.Events, RSSEvent{Seek: true, Off: abs})
	}
	return abs, nil
}

func (r *ReadSeekSizer) Read(p []byte) (int, error) {
	r.Reads++
	if len(p) == 0 {
		return 0, nil
	}
	start := r.Pos
	limit := int64(len(r.Data))
	fail := false
	if r.FailFrom >= 0 && r.FailFrom < limit {
		limit = r.FailFrom
		fail = true
	}
	avail := limit - r.Pos
	if avail <= 0 {
		if fail {
			r.Faults++
			return 0, ErrInjected
		}
		r.EOFBare++
		if r.Record {
			r.Events = append(r.Events, RSSEvent{Off: start, Len: len(p), EOF: true})
		}
		return 0, io.EOF
	}
	n := int64(len(p))
	if n > avail {
		n = avail
	}
	if r.T != nil {
		switch r.T.Weighted(10, 5, 1) {
		case 1:
			if n > 1 {
				n = 1 + int64(r.T.Draw(int(n-1)))
				r.ShortReads++
			}
		case 2:
			if !r.lastZero {
				r.lastZero = true
				r.ZeroReads++
				if r.Record {
					r.Events = append(r.Events, RSSEvent{Off: start, Len: len(p)})
				}
				return 0, nil
			}
		}
	}
	r.lastZero = false
	copy(p, r.Data[r.Pos:r.Pos+n])
	r.Pos += n
	eof := false
	if r.Pos == limit && !fail && r.T != nil && r.T.Chance(1, 2) {
		eof = true
		r.EOFData++
	}
	if r.Record {
		r.Events = append(r.Events, RSSEvent{Off: start, Len: len(p), N: int(n), EOF: eof})
	}
	if eof {
		return int(n), io.EOF
	}
	return int(n), nil
}

// Read makes ReaderAt usable where an io.Reader is required (sfnt.Read takes
// an io.Reader and upgrades it to io.ReaderAt); it serves the data
// sequentially through ReadAt and counts its use.
func (r *ReaderAt) Read(p []byte) (int, error) {
	r.SeqReads++
	n, err := r.ReadAt(p, r.seqPos)
	r.seqPos += int64(n)
	return n, err
}
