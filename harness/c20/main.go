// Worker for C20: generated glyph names under controlled map iteration order
// and call history (ask, install, ask again), CID-to-simple conversion, and
// the PostScript font name.
package main

import (
	"fmt"
	"strings"

	"seehuhn.de/go/postscript/type1/names"

	"seehuhn.de/go/sfnt"
	"seehuhn.de/go/sfnt/cff"
	"seehuhn.de/go/sfnt/glyf"
	"seehuhn.de/go/sfnt/glyph"
	"seehuhn.de/go/sfnt/opentype/coverage"
	"seehuhn.de/go/sfnt/opentype/gtab"
	"seehuhn.de/go/sfnt/os2"
	"seehuhn.de/go/sfnt/zzverif/simgen"
	"seehuhn.de/go/sfnt/zzverif/simhook"
	"seehuhn.de/go/sfnt/zzverif/tape"
	"seehuhn.de/go/sfnt/zzverif/wk"
)

// genGsub builds GSUB 1.1 / 1.2 / 3.1 / 4.1 lookups among existing glyphs,
// with several sources competing for the same target now and then.
func genGsub(t *tape.Tape, n int) *gtab.Info {
	gid := func() glyph.ID {
		if n > 10 && t.Chance(2, 3) {
			return glyph.ID(1 + t.Draw(9)) // hot set: competition for targets
		}
		return glyph.ID(t.Draw(n))
	}
	set := func(max int) []glyph.ID {
		m := map[glyph.ID]bool{}
		for i := 1 + t.Draw(max); i > 0; i-- {
			m[gid()] = true
		}
		var res []glyph.ID
		for g := 0; g < n; g++ {
			if m[glyph.ID(g)] {
				res = append(res, glyph.ID(g))
			}
		}
		return res
	}
	info := &gtab.Info{}
	nl := t.Range(1, 4)
	for l := 0; l < nl; l++ {
		lt := &gtab.LookupTable{Meta: &gtab.LookupMetaInfo{}}
		switch t.Draw(4) {
		case 0:
			lt.Meta.LookupType = 1
			gg := set(6)
			// keep orig+delta inside the font
			delta := glyph.ID(0)
			if max := int(gg[len(gg)-1]); max < n-1 {
				delta = glyph.ID(1 + t.Draw(n-1-max))
			}
			cov := coverage.Set{}
			for _, g := range gg {
				cov[g] = true
			}
			lt.Subtables = append(lt.Subtables, &gtab.Gsub1_1{Cov: cov, Delta: delta})
		case 1:
			lt.Meta.LookupType = 1
			gg := set(6)
			s := &gtab.Gsub1_2{Cov: coverage.Table{}}
			target := gid()
			for i, g := range gg {
				s.Cov[g] = i
				if !t.Chance(1, 2) {
					target = gid() // otherwise: same target as the previous source
				}
				s.SubstituteGlyphIDs = append(s.SubstituteGlyphIDs, target)
			}
			lt.Subtables = append(lt.Subtables, s)
		case 2:
			lt.Meta.LookupType = 3
			gg := set(5)
			s := &gtab.Gsub3_1{Cov: coverage.Table{}}
			for i, g := range gg {
				s.Cov[g] = i
				var alts []glyph.ID
				for j := t.Range(1, 3); j > 0; j-- {
					alts = append(alts, gid())
				}
				s.Alternates = append(s.Alternates, alts)
			}
			lt.Subtables = append(lt.Subtables, s)
		default:
			lt.Meta.LookupType = 4
			gg := set(5)
			s := &gtab.Gsub4_1{Cov: coverage.Table{}}
			for i, g := range gg {
				s.Cov[g] = i
				var ligs []gtab.Ligature
				for j := t.Range(1, 2); j > 0; j-- {
					var in []glyph.ID
					for k := t.Range(1, 2); k > 0; k-- {
						in = append(in, gid())
					}
					ligs = append(ligs, gtab.Ligature{In: in, Out: gid()})
				}
				s.Repl = append(s.Repl, ligs)
			}
			lt.Subtables = append(lt.Subtables, s)
		}
		info.LookupList = append(info.LookupList, lt)
	}
	info.FeatureList = gtab.FeatureListInfo{{Tag: "liga", Lookups: []gtab.LookupIndex{0}}}
	return info
}

func origNames(f *sfnt.Font) []string {
	n := f.NumGlyphs()
	res := make([]string, n)
	switch o := f.Outlines.(type) {
	case *cff.Outlines:
		for i, g := range o.Glyphs {
			res[i] = g.Name
		}
	case *glyf.Outlines:
		if len(o.Names) == n {
			copy(res, o.Names)
		}
	}
	return res
}

// cloneForMutation copies the parts of f that EnsureGlyphNames / MakeSimple
// modify.
func cloneForMutation(f *sfnt.Font) *sfnt.Font {
	g := f.Clone()
	switch o := f.Outlines.(type) {
	case *cff.Outlines:
		o2 := *o
		o2.Glyphs = make([]*cff.Glyph, len(o.Glyphs))
		for i, gl := range o.Glyphs {
			c := *gl
			o2.Glyphs[i] = &c
		}
		g.Outlines = &o2
	case *glyf.Outlines:
		o2 := *o
		if o.Names != nil {
			o2.Names = append([]string(nil), o.Names...)
		}
		g.Outlines = &o2
	}
	return g
}

func checkNameSet(c *wk.Case, what string, names []string, n int) {
	if len(names) != n {
		c.Fail("names-count", what, "%s: %d names for %d glyphs", what, len(names), n)
	}
	seen := map[string]int{}
	for i, nm := range names {
		if nm == "" {
			c.Fail("names-empty", what, "%s: glyph %d has an empty name", what, i)
		}
		if j, dup := seen[nm]; dup {
			c.Fail("names-duplicate", what, "%s: glyphs %d and %d share the name %q", what, j, i, nm)
		}
		seen[nm] = i
	}
	if n > 0 && names[0] != ".notdef" {
		c.Fail("names-notdef", what, "%s: glyph 0 is named %q", what, names[0])
	}
}

func psNameOK(s string) (bool, rune) {
	for _, r := range s {
		if r < 33 || r > 126 || strings.ContainsRune("()<>[]{}/%", r) {
			return false, r
		}
	}
	return true, 0
}

var famPool = []string{"Test", "Sim Sans", "Déjà Vu", "A(b)c", "x/y", "50% [off]", "{curly}", "Tab\there", "日本語 Gothic", "<angle>", "plain-name", "Name With  Spaces", "#hash&amp;"}

func run(c *wk.Case) {
	t := c.T
	// ---- PostScript name
	{
		width := os2.Width(t.Range(0, 9))
		if t.Chance(1, 4) {
			width = os2.Width(t.Draw(1 << 16)) // any value of the field: Read passes usWidthClass through
		}
		f := &sfnt.Font{FamilyName: famPool[t.Draw(len(famPool))], Width: width,
			Weight: os2.Weight(t.Range(0, 10) * 100), IsBold: t.Chance(1, 2), IsItalic: t.Chance(1, 2), IsOblique: t.Chance(1, 4)}
		if t.Chance(1, 3) {
			f.FamilyName += string(rune(t.Range(1, 300)))
		}
		if t.Chance(1, 4) {
			f.Weight = os2.Weight(t.Draw(1 << 16))
		}
		var ps string
		c.MustNotPanic("PostScriptName", func() { ps = f.PostScriptName() })
		if ok, r := psNameOK(ps); !ok {
			c.Fail("postscript-name", "PostScriptName", "PostScriptName %q (family %q) contains %q, which is not allowed in a PostScript name", ps, f.FamilyName, r)
		}
		c.Count("postscript_names", 1)
	}

	// ---- font with a tape-chosen pattern of names
	kind := simgen.Kind(t.Draw(3))
	n := t.Range(1, 40)
	if t.Chance(1, 10) {
		n = t.Range(41, 200)
	}
	f := &sfnt.Font{}
	pattern := t.Weighted(2, 3, 3, 2) // 0 complete, 1 some missing/dup, 2 many, 3 none
	switch kind {
	case simgen.KindTrueType:
		o := simgen.GenTrueType(t, n)
		switch pattern {
		case 3:
			o.Names = nil
			if t.Chance(1, 2) && n > 1 {
				o.Names = make([]string, n-1) // short list: ignored by the library
				for i := range o.Names {
					o.Names[i] = fmt.Sprintf("short%d", i)
				}
			}
		default:
			o.Names = namesFor(t, n, pattern)
		}
		f.Outlines = o
	case simgen.KindCFF:
		o := simgen.GenCFF(t, n, false)
		nm := namesFor(t, n, pattern)
		for i, g := range o.Glyphs {
			if pattern == 3 {
				g.Name = ""
			} else {
				g.Name = nm[i]
			}
		}
		f.Outlines = o
	default:
		o := simgen.GenCFF(t, n, true)
		pattern = 3
		if t.Chance(1, 2) {
			// a CID-keyed font that still carries some glyph names (as after
			// MakeCIDKeyed on a copy, or a hand-built font): MakeSimple must
			// keep the valid unique ones
			pool := []string{"A", "B", "f_i", "eacute", "zzz", "A", "afii10024", "x.alt"}
			for i := 1; i < n; i++ {
				if t.Chance(1, 3) {
					o.Glyphs[i].Name = pool[t.Draw(len(pool))]
				}
			}
			pattern = 2
		}
		f.Outlines = o
	}
	simgen.GenMeta(t, f)
	simgen.GenCMap(t, f)
	if n >= 2 && t.Chance(3, 4) {
		f.Gsub = genGsub(t, n)
	}
	orig := origNames(f)
	c.Sample = map[string]any{"outlines": kind.String(), "glyphs": n, "name_pattern": []string{"complete", "some missing/duplicate", "many missing/duplicate", "none"}[pattern],
		"cmap": f.CMapTable != nil, "gsub": f.Gsub != nil, "original_names": head(orig, 12)}
	c.Logf("%s font, %d glyphs, name pattern %d, cmap=%v gsub=%v, names=%q", kind, n, pattern, f.CMapTable != nil, f.Gsub != nil, head(orig, 40))
	c.Sig(simgen.FontDigest(f))
	c.Class(fmt.Sprintf("%s|pattern%d|cmap=%v|gsub=%v", kind, pattern, f.CMapTable != nil, f.Gsub != nil))

	d0 := simgen.FontDigest(f)
	orders := []uint64{0, 1, 2 + uint64(t.Draw(1 << 20)), 2 + uint64(t.Draw(1 << 20)), 0}
	var ref []string
	for i, ord := range orders {
		var names []string
		simhook.OrderID = ord
		pi := c.Guard(func() { names = f.MakeGlyphNames() })
		simhook.OrderID = 0
		if pi != nil {
			c.FailPanic("MakeGlyphNames", pi)
		}
		c.Count("make_glyph_names_calls", 1)
		if i == 0 {
			ref = names
			checkNameSet(c, "MakeGlyphNames", names, n)
			// every existing unique name is kept
			eff := append([]string(nil), orig...)
			eff[0] = ".notdef"
			cnt := map[string]int{}
			for _, nm := range eff {
				cnt[nm]++
			}
			for g, nm := range eff {
				if nm != "" && cnt[nm] == 1 && names[g] != nm {
					c.Fail("names-existing-lost", "MakeGlyphNames", "glyph %d had the unique name %q, MakeGlyphNames returns %q", g, nm, names[g])
				}
			}
			checkInference(c, f, eff, cnt, names)
			continue
		}
		for g := range ref {
			if names[g] != ref[g] {
				if ord == 0 {
					c.Fail("names-unstable", "MakeGlyphNames/history", "asking again (same map order) gives %q instead of %q for glyph %d", names[g], ref[g], g)
				}
				sites := wk.BlameSites(0, ord, func() uint64 { return simgen.Digest(f.MakeGlyphNames()) })
				c.Fail("names-order-dependence", "MakeGlyphNames/"+strings.Join(sites, "+"),
					"asking again returns different names: glyph %d is %q under map order 0 and %q under map order %d; responsible map iteration site(s): %v", g, ref[g], names[g], ord, sites)
			}
		}
	}
	if simgen.FontDigest(f) != d0 {
		c.Fail("names-query-modifies-font", "MakeGlyphNames", "MakeGlyphNames modified the font")
	}

	// ---- history: install, retrieve, ask again
	g2 := cloneForMutation(f)
	simhook.OrderID = orders[2]
	pi := c.Guard(func() { g2.EnsureGlyphNames() })
	simhook.OrderID = 0
	if pi != nil {
		c.FailPanic("EnsureGlyphNames", pi)
	}
	for gid := 0; gid < n; gid++ {
		if got := g2.GlyphName(glyph.ID(gid)); got != ref[gid] {
			c.Fail("names-install", "EnsureGlyphNames", "after EnsureGlyphNames glyph %d is called %q, MakeGlyphNames had answered %q", gid, got, ref[gid])
		}
	}
	var again []string
	c.MustNotPanic("MakeGlyphNames after install", func() { again = g2.MakeGlyphNames() })
	for gid := range ref {
		if again[gid] != ref[gid] {
			c.Fail("names-unstable", "MakeGlyphNames/after-install", "after installing the names, asking again gives %q instead of %q for glyph %d", again[gid], ref[gid], gid)
		}
	}
	c.Count("install_histories", 1)

	// ---- CID-keyed -> simple
	if kind == simgen.KindCID {
		var text map[glyph.ID]string
		if t.Chance(2, 3) {
			text = map[glyph.ID]string{}
			// texts incl. ones whose derived name is too long to be valid
			// (the glyph must then get a generic name) or has no name at all
			texts := []string{"A", "B", "fi", "é", "A", "Ж", "一二三四五六七", "ffifflffifflffi", "\u00a0\u00a0", ""}
			if t.Chance(1, 3) {
				// every glyph has a text
				for g := 0; g < n; g++ {
					text[glyph.ID(g)] = texts[t.Draw(len(texts)-1)]
				}
			} else {
				for i := t.Range(0, n); i > 0; i-- {
					text[glyph.ID(t.Draw(n))] = texts[t.Draw(len(texts))]
				}
			}
		}
		var refSimple []string
		effCID := append([]string(nil), orig...)
		effCID[0] = ".notdef"
		cntCID := map[string]int{}
		for _, nm := range effCID {
			cntCID[nm]++
		}
		for i, ord := range orders[:3] {
			g3 := cloneForMutation(f)
			o := g3.Outlines.(*cff.Outlines)
			simhook.OrderID = ord
			pi := c.Guard(func() { o.MakeSimple(text) })
			simhook.OrderID = 0
			if pi != nil {
				c.FailPanic("MakeSimple", pi)
			}
			var names []string
			for _, gl := range o.Glyphs {
				names = append(names, gl.Name)
			}
			checkNameSet(c, "MakeSimple", names, n)
			for g, nm := range effCID {
				if nm != "" && cntCID[nm] == 1 && names[g] != nm {
					c.Fail("names-existing-lost", "MakeSimple", "glyph %d had the unique name %q, after MakeSimple (glyph text %v) it is called %q", g, nm, text, names[g])
				}
			}
			if o.IsCIDKeyed() {
				c.Fail("make-simple", "MakeSimple", "font is still CID-keyed after MakeSimple")
			}
			if i == 0 {
				refSimple = names
			} else if d := simgen.DeepDiff(refSimple, names, 0, false); d != "" {
				c.Fail("names-order-dependence", "MakeSimple", "MakeSimple gives different names under map order %d: %s", ord, d)
			}
		}
		c.Count("make_simple_calls", 3)
	}
}

// checkInference judges the clause "missing names are inferred from the
// character map (Adobe glyph-list names) or from substitution rules (variant
// and ligature names) before falling back to numbered placeholders", in the
// cases where the rule leaves no choice:
//
//   - a glyph without a name that is the image of exactly one character,
//     whose glyph-list name nobody else has or could claim, gets that name;
//   - a glyph without name and character that is the result of exactly one
//     ligature rule (and of no other substitution) whose components all have
//     existing unique names gets the component names joined by "_";
//   - a glyph without name and character that is the target of exactly one
//     single/alternate substitution (and of no ligature) from a glyph with an
//     existing unique name gets a variant "<that name>.<suffix>".
//
// (eff: the existing names with glyph 0 = .notdef; cnt: how often each occurs.)
func checkInference(c *wk.Case, f *sfnt.Font, eff []string, cnt map[string]int, got []string) {
	n := len(eff)
	existing := func(g glyph.ID) (string, bool) {
		if int(g) >= n || eff[g] == "" || cnt[eff[g]] != 1 {
			return "", false
		}
		return eff[g], true
	}
	runes := map[glyph.ID][]rune{}
	if best, _ := f.CMapTable.GetBest(); best != nil {
		lo, hi := best.CodeRange()
		for r := lo; r <= hi; r++ {
			if g := best.Lookup(r); g != 0 && int(g) < n {
				runes[g] = append(runes[g], r)
			}
		}
	}
	// candidate names from the character map, to see who competes for what
	cand := map[string]int{}
	for _, rr := range runes {
		for _, r := range rr {
			cand[names.FromUnicode(string(r))]++
		}
	}
	type rule struct {
		src  []glyph.ID
		kind int // 1 = single/alternate, 4 = ligature
	}
	targets := map[glyph.ID][]rule{}
	if f.Gsub != nil {
		for _, lt := range f.Gsub.LookupList {
			for _, st := range lt.Subtables {
				switch s := st.(type) {
				case *gtab.Gsub1_1:
					for g := range s.Cov {
						targets[g+s.Delta] = append(targets[g+s.Delta], rule{[]glyph.ID{g}, 1})
					}
				case *gtab.Gsub1_2:
					for g, i := range s.Cov {
						to := s.SubstituteGlyphIDs[i]
						targets[to] = append(targets[to], rule{[]glyph.ID{g}, 1})
					}
				case *gtab.Gsub3_1:
					for g, i := range s.Cov {
						for _, to := range s.Alternates[i] {
							targets[to] = append(targets[to], rule{[]glyph.ID{g}, 1})
						}
					}
				case *gtab.Gsub4_1:
					for g, i := range s.Cov {
						for _, lig := range s.Repl[i] {
							targets[lig.Out] = append(targets[lig.Out], rule{append([]glyph.ID{g}, lig.In...), 4})
						}
					}
				}
			}
		}
	}
	for gi := 1; gi < n; gi++ {
		g := glyph.ID(gi)
		if eff[g] != "" {
			continue // has a name, or lost it as a duplicate (which copy keeps it is not specified)
		}
		switch rr := runes[g]; {
		case len(rr) >= 1:
			// the glyph-list names its characters offer; "free" ones are
			// names nobody has and no other glyph could claim
			if len(targets[g]) > 0 {
				continue // also reachable through a substitution rule (which source wins is not specified)
			}
			offered := map[string]bool{}
			free := 0
			for _, r := range rr {
				nm := names.FromUnicode(string(r))
				if nm == "" {
					continue
				}
				// (a name of the shape that substitution rules derive does
				// not count as free: a rule might claim it)
				if !offered[nm] && cnt[nm] == 0 && cand[nm] == 1 && !strings.ContainsAny(nm, "._") {
					free++
				}
				offered[nm] = true
			}
			if free == 0 {
				continue
			}
			if len(rr) == 1 {
				c.Count("inference_judged_cmap", 1)
			} else {
				c.Count("inference_judged_cmap_(several_characters)", 1)
			}
			if !offered[got[g]] {
				c.Fail("names-inference", "MakeGlyphNames/cmap", "glyph %d has no name and is the image of %U; at least one of the glyph-list names these characters offer is free, but MakeGlyphNames returns %q", g, rr, got[g])
			}
		case len(rr) == 0 && len(targets[g]) == 1:
			r := targets[g][0]
			var parts []string
			ok := true
			for _, s := range r.src {
				nm, has := existing(s)
				if !has {
					ok = false
				}
				parts = append(parts, nm)
			}
			if !ok {
				continue
			}
			if r.kind == 4 {
				want := strings.Join(parts, "_")
				if cnt[want] > 0 || cand[want] > 0 {
					continue
				}
				c.Count("inference_judged_ligature", 1)
				// (another ligature with the same components may have taken
				// the plain name first: a variant of it is as good)
				if got[g] != want && !strings.HasPrefix(got[g], want+".") {
					c.Fail("names-inference", "MakeGlyphNames/ligature", "glyph %d has no name and no character and is the result of one ligature rule only, with component names %q: MakeGlyphNames returns %q instead of %q or a variant of it", g, parts, got[g], want)
				}
			} else {
				c.Count("inference_judged_variant", 1)
				if !strings.HasPrefix(got[g], parts[0]+".") {
					c.Fail("names-inference", "MakeGlyphNames/variant", "glyph %d has no name and no character and is the target of one substitution only, from the glyph named %q: MakeGlyphNames returns %q, which is not a variant of that name", g, parts[0], got[g])
				}
			}
		}
	}
}

func namesFor(t *tape.Tape, n, pattern int) []string {
	base := []string{"A", "B", "C", "a", "b", "f", "i", "l", "space", "one", "f_i", "uni0416", "a.alt", "x", "Aacute", ".notdef", "A.1", "orn001", "orn002", "_", "a_", "_b", "x__y"}
	names := make([]string, n)
	for i := range names {
		switch {
		case pattern == 0:
			if i == 0 {
				names[i] = ".notdef"
			} else {
				names[i] = fmt.Sprintf("g%d", i)
				if i-1 < 14 {
					names[i] = base[i-1]
				}
			}
		default:
			p := []int{0, 5, 2, 0}[pattern]
			switch t.Weighted(p, 3, 3) {
			case 0:
				names[i] = fmt.Sprintf("g%d", i)
			case 1:
				names[i] = ""
			default:
				names[i] = base[t.Draw(len(base))]
			}
		}
	}
	return names
}

func head(s []string, n int) []string {
	if len(s) > n {
		return s[:n]
	}
	return s
}

func main() {
	wk.Main(&wk.Property{ID: "C20", Run: run})
}
