// Worker for C16: N tasks perform read-only operations on one shared font
// under the deterministic baton scheduler (package sched), built with -race.
// Oracles: the race detector (its report ends the process; the supervisor
// turns it into the violation), every result equals the result of the same
// operation run alone on an independently built identical font, and the
// shared font's digest is unchanged.
package main

import (
	"bytes"
	"fmt"
	"hash/fnv"
	"sort"
	"strings"

	"golang.org/x/text/language"

	"seehuhn.de/go/sfnt"
	"seehuhn.de/go/sfnt/cff"
	"seehuhn.de/go/sfnt/cmap"
	"seehuhn.de/go/sfnt/glyf"
	"seehuhn.de/go/sfnt/glyph"
	"seehuhn.de/go/sfnt/opentype/gtab"
	"seehuhn.de/go/sfnt/opentype/gtab/builder"
	"seehuhn.de/go/sfnt/zzverif/sched"
	"seehuhn.de/go/sfnt/zzverif/simgen"
	"seehuhn.de/go/sfnt/zzverif/simhook"
	"seehuhn.de/go/sfnt/zzverif/simio"
	"seehuhn.de/go/sfnt/zzverif/tape"
	"seehuhn.de/go/sfnt/zzverif/wk"
)

type op struct {
	name string
	arg  int
	run  func(f *sfnt.Font, w *simio.Writer) uint64
}

func hashBytes(b []byte) uint64 {
	h := fnv.New64a()
	h.Write(b)
	return h.Sum64()
}

func layoutDigest(seq []glyph.Info) uint64 {
	h := fnv.New64a()
	for _, g := range seq {
		fmt.Fprintf(h, "%d/%v/%d/%d/%d;", g.GID, g.Text, g.XOffset, g.YOffset, g.Advance)
	}
	return h.Sum64()
}

// opsFor lists the read-only operations applicable to f.
func opsFor(f *sfnt.Font, subsetOK bool) []op {
	n := f.NumGlyphs()
	_, isCFF := f.Outlines.(*cff.Outlines)
	_, isGlyf := f.Outlines.(*glyf.Outlines)
	ops := []op{
		{"Write", 0, func(f *sfnt.Font, w *simio.Writer) uint64 { f.Write(w); return hashBytes(w.Disk) }},
		{"Clone", 0, func(f *sfnt.Font, w *simio.Writer) uint64 { return simgen.FontDigest(f.Clone()) }},
		{"FontBBox", 0, func(f *sfnt.Font, w *simio.Writer) uint64 { return simgen.Digest(f.FontBBox()) ^ simgen.Digest(f.FontBBoxPDF()) }},
		{"Widths", 0, func(f *sfnt.Font, w *simio.Writer) uint64 {
			return simgen.Digest(f.Widths()) ^ simgen.Digest(f.WidthsPDF()) ^ simgen.Digest(f.WidthsMapPDF()) ^ simgen.Digest(f.IsFixedPitch())
		}},
		{"GlyphBBoxes", 0, func(f *sfnt.Font, w *simio.Writer) uint64 { return simgen.Digest(f.GlyphBBoxes()) }},
		{"MakeGlyphNames", 0, func(f *sfnt.Font, w *simio.Writer) uint64 { return simgen.Digest(f.MakeGlyphNames()) }},
		{"GetFontInfo", 0, func(f *sfnt.Font, w *simio.Writer) uint64 {
			return simgen.Digest(f.GetFontInfo()) ^ simgen.Digest(f.PostScriptName())
		}},
		{"ExplainGsub", 0, func(f *sfnt.Font, w *simio.Writer) uint64 { return simgen.Digest(builder.ExplainGsub(f)) }},
		{"ExplainGpos", 0, func(f *sfnt.Font, w *simio.Writer) uint64 { return simgen.Digest(builder.ExplainGpos(f)) }},
	}
	for _, g := range []int{0, n / 2, n - 1} {
		gid := glyph.ID(g)
		ops = append(ops, op{"GlyphMetrics", g, func(f *sfnt.Font, w *simio.Writer) uint64 {
			return simgen.Digest(f.GlyphBBox(gid)) ^ simgen.Digest(f.GlyphWidth(gid)) ^ simgen.Digest(f.GlyphWidthPDF(gid)) ^ simgen.Digest(f.Outlines.GlyphBBoxPDF(f.FontMatrix, gid))
		}})
	}
	if isGlyf {
		ops = append(ops, op{"WriteTrueTypePDF", 0, func(f *sfnt.Font, w *simio.Writer) uint64 { f.WriteTrueTypePDF(w); return hashBytes(w.Disk) }})
	}
	if isCFF {
		ops = append(ops,
			op{"WriteOpenTypeCFFPDF", 0, func(f *sfnt.Font, w *simio.Writer) uint64 { f.WriteOpenTypeCFFPDF(w); return hashBytes(w.Disk) }},
			op{"AsCFF.Write", 0, func(f *sfnt.Font, w *simio.Writer) uint64 { f.AsCFF().Write(w); return hashBytes(w.Disk) }})
	}
	if subsetOK {
		for k := 0; k < 2; k++ {
			k := k
			ops = append(ops, op{"Subset+Write", k, func(f *sfnt.Font, w *simio.Writer) uint64 {
				var gl []glyph.ID
				gl = append(gl, 0)
				for g := 1 + k; g < n && len(gl) < 40; g += 3 + k {
					gl = append(gl, glyph.ID(g))
				}
				s := f.Subset(gl)
				s.Write(w)
				return hashBytes(w.Disk)
			}})
		}
	}
	if f.CMapTable != nil {
		best, _ := f.CMapTable.GetBest()
		if best != nil {
			lo, _ := best.CodeRange()
			for k := 0; k < 2; k++ {
				k := k
				ops = append(ops, op{"NewLayouter+Layout", k, func(f *sfnt.Font, w *simio.Writer) uint64 {
					// languages of several scripts; nil = the library's default feature sets
					lang := []language.Tag{language.English, language.Arabic}[k]
					l, err := f.NewLayouter(lang, nil, nil)
					if err != nil {
						return 1
					}
					var d uint64
					for _, s := range []string{"office fluff AVATAR", string([]rune{lo, lo + 1, lo + 2, lo + 3 + rune(k), lo + 1}), "ffi"} {
						d = d*31 + layoutDigest(l.Layout(s))
					}
					return d
				}})
			}
		}
	}
	for which, info := range []*gtab.Info{f.Gsub, f.Gpos} {
		if info == nil || len(info.LookupList) == 0 {
			continue
		}
		info := info
		ops = append(ops, op{"NewContext+Apply", which, func(f *sfnt.Font, w *simio.Writer) uint64 {
			var all []gtab.LookupIndex
			for i := range info.LookupList {
				all = append(all, gtab.LookupIndex(i))
			}
			ctx := gtab.NewContext(info.LookupList, f.Gdef, all)
			seq := make([]glyph.Info, 12)
			for i := range seq {
				seq[i] = glyph.Info{GID: glyph.ID((i*5 + 1) % n), Text: []rune{rune('a' + i)}}
			}
			return layoutDigest(ctx.Apply(seq))
		}})
	}
	return ops
}

var opNames = []string{"Write", "Clone", "FontBBox", "Widths", "GlyphBBoxes", "MakeGlyphNames", "GetFontInfo", "ExplainGsub", "ExplainGpos",
	"GlyphMetrics", "WriteTrueTypePDF", "WriteOpenTypeCFFPDF", "AsCFF.Write", "Subset+Write", "NewLayouter+Layout", "NewContext+Apply"}
var opID = func() map[string]int {
	m := map[string]int{}
	for i, n := range opNames {
		m[n] = i
	}
	return m
}()

// world describes how to build the shared font (twice, identically).
type world struct {
	name     string
	build    func() *sfnt.Font
	subsetOK bool
}

// throughDisk writes a font and reads it back: structures built by the
// reader (e.g. the FDSelect function of a CID-keyed font) differ from the
// ones a program constructs.
func throughDisk(f *sfnt.Font) *sfnt.Font {
	w := simio.NewWriter()
	if _, err := f.Write(w); err != nil {
		panic("worker: fault-free write failed: " + err.Error())
	}
	g, err := sfnt.Read(bytes.NewReader(w.Disk))
	if err != nil {
		panic("worker: re-read failed: " + err.Error())
	}
	return g
}

func chooseWorld(t *tape.Tape) world {
	w := chooseWorld0(t)
	if w.subsetOK && t.Chance(1, 3) {
		// substitution lookups of the kinds Font.Subset handles (GSUB 1-4),
		// several of them, no GDEF: subsetting drops and renumbers lookups
		build, seed := w.build, t.Raw()
		w.build = func() *sfnt.Font {
			f := build()
			if f.NumGlyphs() > 12 {
				g := &simgen.LookupGen{T: tape.New(seed), N: min(f.NumGlyphs(), 60), Types: []uint16{1, 2, 3, 4}}
				f.Gsub = g.Info(true)
				f.Gdef = nil
			}
			return f
		}
		w.name += "+substitution-lookups"
		return w
	}
	if t.Chance(1, 12) {
		// lookup data beyond 64 KiB: the encoder reorders lookups and
		// introduces extension subtables (its rare path)
		build, seed := w.build, t.Raw()
		w.build = func() *sfnt.Font {
			f := build()
			if g := simgen.BigGpos(tape.New(seed), f.NumGlyphs()); g != nil {
				f.Gpos = g
			}
			return f
		}
		w.name += "+64KiB-of-kerning"
		w.subsetOK = false
	} else if t.Chance(1, 3) {
		// kerning data of realistic size (3..12 KiB per subtable)
		build, seed := w.build, t.Raw()
		w.build = func() *sfnt.Font {
			f := build()
			if f.NumGlyphs() > 12 {
				f.Gpos = simgen.MidGpos(tape.New(seed), f.NumGlyphs())
			}
			return f
		}
		w.name += "+kerning"
		w.subsetOK = false
	}
	if t.Chance(1, 2) {
		build := w.build
		w.build = func() *sfnt.Font { return throughDisk(build()) }
		w.name += "(written and read back)"
		// Read adds standard ligatures / kern lookups only of supported kinds,
		// but generated layout tables stay unsupported for Subset
	}
	return w
}

func chooseWorld0(t *tape.Tape) world {
	switch t.Weighted(3, 2, 2, 3) {
	case 0:
		i := t.Draw(12)
		return world{simgen.GoFontNames[i], func() *sfnt.Font { return simgen.ReadGoFont(i) }, true}
	case 1:
		return world{"goregular-as-cff", func() *sfnt.Font { return simgen.ToCFF(simgen.ReadGoFont(0), false) }, true}
	case 2:
		return world{"gomono-as-cid", func() *sfnt.Font { return simgen.ToCFF(simgen.ReadGoFont(6), true) }, true}
	default:
		seed := t.Raw()
		kind := simgen.Kind(t.Draw(3))
		layout := t.Chance(2, 3)
		return world{"generated-" + kind.String(), func() *sfnt.Font {
			tt := tape.New(seed)
			f := simgen.GenFont(tt, kind, 1)
			if f.CMapTable == nil {
				m := cmap.Format4{}
				for i := 1; i < f.NumGlyphs() && i < 100; i++ {
					m[uint16(0x40+i)] = glyph.ID(i)
				}
				if len(m) > 0 {
					f.InstallCMap(m)
				}
			}
			if layout {
				simgen.AddLayoutTables(tt, f)
			}
			return f
		}, !layout}
	}
}

type taskPlan struct {
	ops     []op
	results []uint64
	panics  []string
}

func run(c *wk.Case) {
	t := c.T
	w := chooseWorld(t)
	simhook.OrderID = uint64(t.Draw(3)) // fixed for the whole case: pure function of (id, site)
	order := simhook.OrderID
	F := w.build()
	ops := opsFor(F, w.subsetOK)
	n := 2 + t.Weighted(4, 3, 2, 1, 1)
	if t.Chance(1, 8) {
		n = t.Range(7, 12) // thresholds such as "eight callers at once" need many tasks
	}
	// "stampede": many goroutines do the same thing to the same font at the
	// same time (a server writing one font for many requests)
	stampede := t.Chance(1, 4)
	var stampOp op
	if stampede {
		n = t.Range(8, 16)
		var heavy []op
		for _, o := range ops {
			switch o.name {
			case "Write", "WriteTrueTypePDF", "WriteOpenTypeCFFPDF", "AsCFF.Write", "Subset+Write", "NewLayouter+Layout", "MakeGlyphNames", "ExplainGsub", "ExplainGpos":
				heavy = append(heavy, o)
			}
		}
		stampOp = heavy[t.Draw(len(heavy))]
		if t.Chance(1, 2) {
			// the motivating case: a server writing one font for many requests
			for _, o := range heavy {
				if o.name == "Write" {
					stampOp = o
				}
			}
		}
	}
	plans := make([]*taskPlan, n)
	var desc []string
	for i := range plans {
		p := &taskPlan{}
		k := t.Range(2, 6)
		if stampede {
			k = t.Range(1, 2)
		}
		var names []string
		for j := 0; j < k; j++ {
			o := ops[t.Draw(len(ops))]
			if stampede {
				o = stampOp
			}
			p.ops = append(p.ops, o)
			names = append(names, fmt.Sprintf("%s(%d)", o.name, o.arg))
		}
		p.results = make([]uint64, k)
		p.panics = make([]string, k)
		plans[i] = p
		desc = append(desc, fmt.Sprintf("task %d: %s", i, strings.Join(names, ", ")))
	}
	c.Sample = map[string]any{"font": w.name, "tasks": desc, "map_order": order}
	c.Logf("shared font %s (%d glyphs), map order %d", w.name, F.NumGlyphs(), order)
	for _, d := range desc {
		c.Logf("%s", d)
	}
	before := simgen.FontDigest(F)
	defaultsBefore := simgen.Digest([]any{gtab.GsubDefaultFeatures, gtab.GposDefaultFeatures})

	// ---- concurrent phase
	maxSwitches := 40 + t.Draw(400)
	st := sched.Run(t, n, maxSwitches, func(i int) {
		p := plans[i]
		for j, o := range p.ops {
			sched.BeginOp(i, opID[o.name])
			func() {
				defer func() {
					if r := recover(); r != nil {
						p.panics[j] = fmt.Sprint(r)
					}
				}()
				wr := simio.NewWriter()
				wr.Yield = func() { sched.YieldPoint("write-call") }
				p.results[j] = o.run(F, wr)
			}()
			sched.EndOp(i)
		}
	})
	c.Count("cases", 1)
	c.Count("tasks", n)
	c.Count("task_switches", st.Switches)
	c.Count("yields_because_blocked_on_a_lock", st.BlockedYields)
	c.Count("switches_before_a_synchronisation_operation", st.SyncYields)
	if st.SyncOnly {
		c.Count("cases_in_sync-only_mode", 1)
	}
	c.Count("blocks_on_virtual_channels_or_waitgroups", st.ChanBlocks)
	c.Count("library_goroutines_left_waiting_(not_judged)", st.LeftBlocked)
	c.Count("goroutines_started_by_the_library_(scheduled_as_tasks)", st.Spawned)
	for _, s := range st.TraceShort {
		c.Logf("switch at step %d: task %d -> %d (%s)", s.Step, s.From, s.To, s.Site)
	}
	var pairs []string
	for k, n := range st.Overlaps {
		pairs = append(pairs, opNames[k[0]]+"|"+opNames[k[1]])
		c.Count("mid_operation_overlaps", n)
	}
	sort.Strings(pairs)
	for _, k := range pairs {
		c.Class("overlap|" + k)
	}
	c.Sig(st.TraceHash, simgen.Digest(desc), uint64(len(w.name)))

	if simgen.Digest([]any{gtab.GsubDefaultFeatures, gtab.GposDefaultFeatures}) != defaultsBefore {
		c.Fail("shared-defaults-modified", "gtab.DefaultFeatures", "the package-level default feature sets (gtab.GsubDefaultFeatures / GposDefaultFeatures), which every caller passing nil shares, changed during read-only operations")
	}
	// ---- oracle 3: the shared font is unchanged
	if after := simgen.FontDigest(F); after != before {
		// name the field: compare with an identical font built afresh
		where := simgen.FontDiff(w.build(), F)
		loc := where
		if i := strings.IndexAny(loc, "[:"); i > 0 {
			loc = loc[:i]
		}
		c.Fail("shared-font-modified", loc, "the shared font %s changed during the concurrent phase (read-only operations only): %s", w.name, where)
	}

	// ---- oracle 2: every result equals the solo result on an identical font
	F2 := w.build()
	ops2 := opsFor(F2, w.subsetOK)
	byKey := map[string]op{}
	for _, o := range ops2 {
		byKey[fmt.Sprintf("%s/%d", o.name, o.arg)] = o
	}
	solo := map[string]uint64{}
	soloPanic := map[string]string{}
	for i, p := range plans {
		for j, o := range p.ops {
			key := fmt.Sprintf("%s/%d", o.name, o.arg)
			c.Count("op_"+o.name, 1)
			if _, ok := solo[key]; !ok {
				func() {
					defer func() {
						if r := recover(); r != nil {
							soloPanic[key] = fmt.Sprint(r)
						}
					}()
					solo[key] = byKey[key].run(F2, simio.NewWriter())
				}()
			}
			if p.panics[j] != soloPanic[key] {
				c.Fail("concurrent-result", o.name, "task %d op %d %s: panicked with %q when run concurrently, %q when run alone", i, j, key, p.panics[j], soloPanic[key])
			}
			if p.panics[j] == "" && p.results[j] != solo[key] {
				c.Fail("concurrent-result", o.name, "task %d op %d %s: the result differs from the result of the same call run alone on an identical font", i, j, key)
			}
		}
	}
	simhook.OrderID = 0
}

func main() {
	wk.Main(&wk.Property{ID: "C16", Run: run})
}
