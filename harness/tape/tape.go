// Package tape is the single source of every choice made in a simulated
// case: generated data, operations, fault kinds and offsets, the goroutine to
// run next, the map order assignment, clock values, read split points.
//
// In generation mode the tape is extended on demand from a splitmix64 stream
// seeded from (VERIF_SEED, property, case index).  In replay mode the recorded
// values are used and every draw past the end returns 0; by convention 0 is
// always the plainest choice (no fault, first task, ascending order, full
// read, smallest size), so deleting or zeroing tape entries simplifies a case.
package tape

import (
	"syscall"
	"unsafe"
)

// Mix is splitmix64's output function.
func Mix(x uint64) uint64 {
	x += 0x9e3779b97f4a7c15
	x = (x ^ (x >> 30)) * 0xbf58476d1ce4e5b9
	x = (x ^ (x >> 27)) * 0x94d049bb133111eb
	return x ^ (x >> 31)
}

// CaseSeed derives the PRNG seed of case i of a property from the batch seed.
func CaseSeed(seed uint64, property string, i uint64) uint64 {
	h := Mix(seed)
	for _, c := range []byte(property) {
		h = Mix(h ^ uint64(c))
	}
	return Mix(h ^ Mix(i+0x1234567))
}

// Tape is a replayable sequence of choices.
type Tape struct {
	vals   []uint64
	pos    int
	state  uint64
	replay bool
	fd     int // if > 0: every value drawn is written here at once (raw write)
}

// RecordTo makes the tape write every value it hands out to fd immediately,
// with a raw system call (so that the values survive a crash of the process
// and the write is invisible to the race detector).
func (t *Tape) RecordTo(fd int) { t.fd = fd }

//go:norace
func (t *Tape) record(v uint64) {
	if t.fd <= 0 {
		return
	}
	var b [8]byte
	for i := range b {
		b[i] = byte(v >> (8 * i))
	}
	syscall.Syscall(syscall.SYS_WRITE, uintptr(t.fd), uintptr(unsafe.Pointer(&b[0])), 8)
}

// New returns a generating tape.
func New(seed uint64) *Tape { return &Tape{state: seed} }

// Replay returns a tape that replays vals and then yields zeros.
func Replay(vals []uint64) *Tape {
	return &Tape{vals: append([]uint64(nil), vals...), replay: true}
}

// Values returns the values consumed so far (generation mode: all generated).
func (t *Tape) Values() []uint64 { return append([]uint64(nil), t.vals[:t.pos]...) }

// Reserve makes room for n more entries, so that recording them does not
// reallocate (the C16 scheduler draws from goroutines under the race
// detector, where growing a slice would be reported).
func (t *Tape) Reserve(n int) {
	if cap(t.vals)-len(t.vals) < n {
		nv := make([]uint64, len(t.vals), len(t.vals)+n)
		copy(nv, t.vals)
		t.vals = nv
	}
}

// Used returns the number of entries consumed.
func (t *Tape) Used() int { return t.pos }

// Raw returns the next raw 64-bit choice.
//
//go:norace
func (t *Tape) Raw() uint64 {
	if t.pos < len(t.vals) {
		v := t.vals[t.pos]
		t.pos++
		t.record(v)
		return v
	}
	if t.replay {
		t.pos++
		t.record(0)
		return 0
	}
	t.state += 0x9e3779b97f4a7c15
	v := Mix(t.state)
	if len(t.vals) < cap(t.vals) {
		t.vals = t.vals[:len(t.vals)+1]
		t.vals[len(t.vals)-1] = v
	} else {
		t.vals = append(t.vals, v)
	}
	t.pos++
	t.record(v)
	return v
}

// Draw returns a choice in [0, n).  n <= 0 yields 0 (one entry is consumed
// all the same so that tapes stay aligned).
//
//go:norace
func (t *Tape) Draw(n int) int {
	v := t.Raw()
	if n <= 1 {
		return 0
	}
	return int(v % uint64(n))
}

// Range returns a choice in [lo, hi] (inclusive); lo is the plain choice.
func (t *Tape) Range(lo, hi int) int {
	if hi <= lo {
		t.Raw()
		return lo
	}
	return lo + t.Draw(hi-lo+1)
}

// Chance is true with probability num/den; the plain choice is false.
func (t *Tape) Chance(num, den int) bool {
	return t.Draw(den) >= den-num
}

// Weighted returns an index with probability proportional to weights; index
// 0 is the plain choice.
func (t *Tape) Weighted(weights ...int) int {
	sum := 0
	for _, w := range weights {
		sum += w
	}
	x := t.Draw(sum)
	for i, w := range weights {
		if x < w {
			return i
		}
		x -= w
	}
	return 0
}

// Bytes returns n pseudo-random bytes derived from one tape entry (so that
// bulk data costs a single choice); entry 0 gives all zeros.
func (t *Tape) Bytes(n int) []byte {
	s := t.Raw()
	b := make([]byte, n)
	if s == 0 {
		return b
	}
	for i := 0; i < n; i += 8 {
		s += 0x9e3779b97f4a7c15
		v := Mix(s)
		for j := 0; j < 8 && i+j < n; j++ {
			b[i+j] = byte(v >> (8 * j))
		}
	}
	return b
}

// Int63 returns a non-negative 63-bit value.
func (t *Tape) Int63() int64 { return int64(t.Raw() >> 1) }

// Sub derives an independent generating tape (used for bulky generated data
// whose individual choices are not worth shrinking); it costs one entry.
func (t *Tape) Sub() *Tape {
	return New(t.Raw())
}
