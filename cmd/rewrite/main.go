// Command rewrite instruments a scratch copy of the repository in place.
//
//	rewrite -dir <scratch copy> [-maps] [-clock] [-tick] [-chan pkgsuffix]
//
// It loads and type-checks every non-test package of the module found in
// -dir and applies purely textual edits at AST positions:
//
//	-maps   `range m` (m of map type, at least one iteration variable)
//	        => `range simhook.Range(m, "site")`;
//	        x/exp/maps.Keys/Values(m) => simhook.Permute(maps.Keys(m), "site");
//	        std maps.Keys/Values/All  => simhook.PermuteSeq[2](..., "site")
//	-clock  time.Now => simhook.Now
//	-tick   simhook.Tick() at the head of every function and loop body
//	-chan   in packages whose import path ends in the given suffix:
//	        simhook.ChanYield("site") before each statement that contains a
//	        channel send, receive or close; `range ch` => `range
//	        simhook.ChanRange(ch, "site")`
//
// It prints a JSON summary of what it did on stdout.  Exit status 0 = all
// requested edits applied, 1 = usage/load/type error (nothing is guaranteed
// about the directory then; the caller falls back to an uninstrumented copy).
package main

import (
	"encoding/json"
	"flag"
	"fmt"
	"go/ast"
	"go/token"
	"go/types"
	"os"
	"path/filepath"
	"sort"
	"strings"

	"golang.org/x/tools/go/packages"
)

const hookImport = "seehuhn.de/go/sfnt/zzverif/simhook"

type edit struct {
	start, end int
	rank       int
	text       string
}

type summary struct {
	Packages   int            `json:"packages"`
	Files      int            `json:"files"`
	MapRanges  int            `json:"map_ranges"`
	MapsCalls  int            `json:"maps_calls"`
	ClockSites int            `json:"clock_sites"`
	Ticks      int            `json:"ticks"`
	ChanSites  int            `json:"chan_sites"`
	LockSites  int            `json:"lock_sites"`
	Uncontrolled map[string]int `json:"uncontrolled_nondeterminism,omitempty"`
	Sites      []string       `json:"sites"`
	Skipped    map[string]int `json:"skipped,omitempty"`
}

func main() {
	dir := flag.String("dir", "", "root of the scratch copy")
	doMaps := flag.Bool("maps", false, "")
	doClock := flag.Bool("clock", false, "")
	doTick := flag.Bool("tick", false, "")
	chanPkg := flag.String("chan", "", "")
	doLocks := flag.Bool("locks", false, "")
	flag.Parse()
	if *dir == "" {
		fmt.Fprintln(os.Stderr, "rewrite: -dir required")
		os.Exit(1)
	}
	abs, err := filepath.Abs(*dir)
	if err != nil {
		fail(err)
	}

	cfg := &packages.Config{
		Mode: packages.NeedName | packages.NeedFiles | packages.NeedCompiledGoFiles |
			packages.NeedImports | packages.NeedTypes | packages.NeedSyntax |
			packages.NeedTypesInfo | packages.NeedTypesSizes,
		Dir:   abs,
		Tests: false,
		Env:   append(os.Environ(), "GOFLAGS=-mod=mod", "GOPROXY=off", "GOSUMDB=off"),
	}
	pkgs, err := packages.Load(cfg, "./...")
	if err != nil {
		fail(err)
	}
	sum := &summary{Skipped: map[string]int{}}
	for _, pkg := range pkgs {
		if strings.Contains(pkg.PkgPath, "/zzverif") || strings.Contains(pkg.PkgPath, "/examples/") {
			continue
		}
		if len(pkg.Errors) > 0 {
			for _, e := range pkg.Errors {
				fmt.Fprintln(os.Stderr, "rewrite: ", e)
			}
			os.Exit(1)
		}
		sum.Packages++
		chanOn := *chanPkg != "" && strings.HasSuffix(pkg.PkgPath, *chanPkg)
		for i, file := range pkg.Syntax {
			fname := pkg.CompiledGoFiles[i]
			if strings.HasSuffix(fname, "_test.go") || !strings.HasPrefix(fname, abs) {
				continue
			}
			rel, _ := filepath.Rel(abs, fname)
			r := &rewriter{
				pkg: pkg, fset: pkg.Fset, file: file, rel: rel, sum: sum,
				maps: *doMaps, clock: *doClock, tick: *doTick, chans: chanOn, locks: *doLocks,
			}
			if err := r.run(fname); err != nil {
				fail(err)
			}
		}
	}
	sort.Strings(sum.Sites)
	out, _ := json.Marshal(sum)
	fmt.Println(string(out))
}

func fail(err error) {
	fmt.Fprintln(os.Stderr, "rewrite:", err)
	os.Exit(1)
}

type rewriter struct {
	pkg   *packages.Package
	fset  *token.FileSet
	file  *ast.File
	rel   string
	sum   *summary
	edits []edit
	seq   int

	maps, clock, tick, chans bool
	locks                    bool
	usedTime                 bool
}

func (r *rewriter) off(p token.Pos) int { return r.fset.Position(p).Offset }

func (r *rewriter) site(p token.Pos) string {
	pos := r.fset.Position(p)
	return fmt.Sprintf("%s:%d", filepath.ToSlash(r.rel), pos.Line)
}

func (r *rewriter) insert(at token.Pos, text string, suffix bool) {
	r.seq++
	rank := r.seq
	if suffix {
		rank = -r.seq
	}
	o := r.off(at)
	r.edits = append(r.edits, edit{start: o, end: o, rank: rank, text: text})
}

func (r *rewriter) wrap(e ast.Expr, prefix, suffix string) {
	// one sequence number for both so that nesting is consistent
	r.seq++
	r.edits = append(r.edits,
		edit{start: r.off(e.Pos()), end: r.off(e.Pos()), rank: r.seq, text: prefix},
		edit{start: r.off(e.End()), end: r.off(e.End()), rank: -r.seq, text: suffix})
}

func (r *rewriter) replace(from, to token.Pos, text string) {
	r.seq++
	r.edits = append(r.edits, edit{start: r.off(from), end: r.off(to), rank: r.seq, text: text})
}

func isMap(t types.Type) bool {
	if t == nil {
		return false
	}
	if _, ok := t.(*types.TypeParam); ok {
		return false
	}
	_, ok := t.Underlying().(*types.Map)
	return ok
}

func isChan(t types.Type) bool {
	if t == nil {
		return false
	}
	if _, ok := t.(*types.TypeParam); ok {
		return false
	}
	_, ok := t.Underlying().(*types.Chan)
	return ok
}

// pkgFunc reports the package path and name of the function a call refers to.
func (r *rewriter) pkgFunc(fun ast.Expr) (string, string) {
	// strip explicit instantiation
	switch f := fun.(type) {
	case *ast.IndexExpr:
		fun = f.X
	case *ast.IndexListExpr:
		fun = f.X
	}
	sel, ok := fun.(*ast.SelectorExpr)
	if !ok {
		return "", ""
	}
	obj := r.pkg.TypesInfo.Uses[sel.Sel]
	fn, ok := obj.(*types.Func)
	if !ok || fn.Pkg() == nil {
		return "", ""
	}
	if sig, ok := fn.Type().(*types.Signature); ok && sig.Recv() != nil {
		return "", ""
	}
	return fn.Pkg().Path(), fn.Name()
}

// inSelectComm reports whether the innermost enclosing statement context is
// the communication clause of a select statement.
func inSelectComm(stack []ast.Node) bool {
	for i := len(stack) - 1; i > 0; i-- {
		if cc, ok := stack[i-1].(*ast.CommClause); ok {
			if st, ok := stack[i].(ast.Stmt); ok && cc.Comm == st {
				return true
			}
			return false
		}
		if _, ok := stack[i].(*ast.BlockStmt); ok {
			return false
		}
	}
	return false
}

// rewriteGo turns a goroutine started by repository code into a task of the
// scheduler:
//
//	go func(a T) { BODY }(x)
//	=>  zzgoN := simhook.PreGo(); go func(a T) { simhook.TaskEnter(zzgoN); defer simhook.TaskExit(zzgoN); BODY }(x)
//	go f(x)
//	=>  zzgoN := simhook.PreGo(); go func() { simhook.TaskEnter(zzgoN); defer simhook.TaskExit(zzgoN); f(x) }()
//
// (in the second form the arguments are evaluated in the new goroutine).
func (r *rewriter) rewriteGo(g *ast.GoStmt) {
	name := fmt.Sprintf("zzgo%d", r.off(g.Pos()))
	r.insert(g.Pos(), name+" := simhook.PreGo(); ", false)
	prologue := fmt.Sprintf("simhook.TaskEnter(%s); defer simhook.TaskExit(%s); ", name, name)
	if lit, ok := g.Call.Fun.(*ast.FuncLit); ok {
		r.insert(lit.Body.Lbrace+1, prologue, false)
	} else {
		r.insert(g.Call.Pos(), "func() { "+prologue, false)
		r.insert(g.Call.End(), " }()", true)
	}
	r.sum.LockSites++
}

func (r *rewriter) note(what string) {
	if r.sum.Uncontrolled == nil {
		r.sum.Uncontrolled = map[string]int{}
	}
	r.sum.Uncontrolled[what]++
}

// rewriteLock turns X.Lock() / X.RLock() on sync.Mutex / sync.RWMutex into
// simhook.SpinLock(X.TryLock / X.TryRLock) and X.Do(f) on sync.Once into
// simhook.OnceDo(&X, f).
func (r *rewriter) rewriteLock(call *ast.CallExpr) {
	sel, ok := call.Fun.(*ast.SelectorExpr)
	if !ok {
		return
	}
	fn, ok := r.pkg.TypesInfo.Uses[sel.Sel].(*types.Func)
	if !ok || fn.Pkg() == nil {
		return
	}
	if fn.Pkg().Path() == "sync/atomic" {
		// a yield point before every atomic operation:
		// x.Load()  =>  simhook.Pre(x.Load)()
		r.wrap(call.Fun, "simhook.Pre(", ")")
		r.sum.LockSites++
		return
	}
	if fn.Pkg().Path() != "sync" {
		return
	}
	sig, ok := fn.Type().(*types.Signature)
	if !ok || sig.Recv() == nil {
		return
	}
	recv := sig.Recv().Type()
	if p, ok := recv.(*types.Pointer); ok {
		recv = p.Elem()
	}
	named, ok := recv.(*types.Named)
	if !ok {
		return
	}
	switch named.Obj().Name() {
	case "Pool":
		r.note("sync.Pool")
		return
	case "Cond":
		r.note("sync.Cond")
		return
	case "WaitGroup":
		xt := r.pkg.TypesInfo.TypeOf(sel.X)
		if xt == nil {
			return
		}
		amp := "&"
		if p, ok := xt.(*types.Pointer); ok {
			xt = p.Elem()
			amp = ""
		}
		if n2, ok := xt.(*types.Named); !ok || n2.Obj().Pkg() == nil || n2.Obj().Pkg().Path() != "sync" || n2.Obj().Name() != "WaitGroup" {
			r.note("sync.WaitGroup(promoted)")
			return
		}
		var fnName string
		switch fn.Name() {
		case "Add":
			fnName = "simhook.WGAdd("
		case "Done":
			fnName = "simhook.WGDone("
		case "Wait":
			fnName = "simhook.WGWait("
		default:
			return
		}
		// X.Add(n) => simhook.WGAdd(&X, n);  X.Done() => simhook.WGDone(&X)
		sep := ", "
		if len(call.Args) == 0 {
			sep = ""
		}
		r.replace(sel.X.End(), call.Lparen+1, sep)
		r.wrap2(call.Pos(), call.Pos(), fnName+amp, "")
		r.sum.LockSites++
		return
	case "Mutex", "RWMutex":
		if len(call.Args) != 0 || (fn.Name() != "Lock" && fn.Name() != "RLock") {
			return
		}
		try := "TryLock"
		if fn.Name() == "RLock" {
			try = "TryRLock"
		}
		// X.Lock()  =>  simhook.SpinLock(X.TryLock)
		r.replace(sel.Sel.Pos(), call.End(), try)
		r.wrap2(call.Pos(), call.End(), "simhook.SpinLock(", ")")
		r.sum.LockSites++
	case "Once":
		if fn.Name() != "Do" || len(call.Args) != 1 {
			return
		}
		// only the direct form X.Do(f) with X of type sync.Once or *sync.Once
		xt := r.pkg.TypesInfo.TypeOf(sel.X)
		if xt == nil {
			return
		}
		amp := "&"
		if p, ok := xt.(*types.Pointer); ok {
			xt = p.Elem()
			amp = ""
		}
		if n2, ok := xt.(*types.Named); !ok || n2.Obj().Pkg() == nil || n2.Obj().Pkg().Path() != "sync" || n2.Obj().Name() != "Once" {
			r.note("sync.Once(promoted)")
			return
		}
		// X.Do(f)  =>  simhook.OnceDo(&X, f)
		r.replace(sel.X.End(), call.Lparen+1, ", ")
		r.wrap2(call.Pos(), call.Pos(), "simhook.OnceDo("+amp, "")
		r.sum.LockSites++
	}
}

// wrap2 inserts prefix at from and suffix at to.
func (r *rewriter) wrap2(from, to token.Pos, prefix, suffix string) {
	r.seq++
	r.edits = append(r.edits, edit{start: r.off(from), end: r.off(from), rank: -1000000 + r.seq, text: prefix})
	if suffix != "" {
		r.edits = append(r.edits, edit{start: r.off(to), end: r.off(to), rank: 1000000 + r.seq, text: suffix})
	}
}

func (r *rewriter) run(fname string) error {
	src, err := os.ReadFile(fname)
	if err != nil {
		return err
	}
	info := r.pkg.TypesInfo

	// statement context for channel yields: stack of nodes
	var stack []ast.Node
	chanStmtDone := map[ast.Stmt]bool{}
	recv2 := map[*ast.UnaryExpr]bool{}
	yieldBefore := func(at token.Pos) {
		// find innermost statement that is a direct child of a statement list
		for i := len(stack) - 1; i > 0; i-- {
			st, ok := stack[i].(ast.Stmt)
			if !ok {
				continue
			}
			parent := stack[i-1]
			inList := false
			switch p := parent.(type) {
			case *ast.BlockStmt:
				inList = true
			case *ast.CaseClause:
				inList = true
				for _, e := range p.List {
					if e.Pos() <= st.Pos() && st.End() <= e.End() {
						inList = false
					}
				}
			case *ast.CommClause:
				inList = p.Comm != st
				if !inList {
					// communication of a select: yield before the select itself
					continue
				}
			case *ast.LabeledStmt:
				continue // insert before the label instead
			}
			if !inList {
				continue
			}
			// if the parent chain has LabeledStmt directly above, use it
			target := st
			if chanStmtDone[target] {
				return
			}
			chanStmtDone[target] = true
			r.insert(target.Pos(), fmt.Sprintf("simhook.ChanYield(%q); ", r.site(at)), false)
			r.sum.ChanSites++
			return
		}
		r.sum.Skipped["chan-op-without-statement-context"]++
	}

	ast.Inspect(r.file, func(n ast.Node) bool {
		if n == nil {
			stack = stack[:len(stack)-1]
			return true
		}
		stack = append(stack, n)
		switch n := n.(type) {
		case *ast.FuncDecl:
			if r.tick && n.Body != nil {
				r.insert(n.Body.Lbrace+1, "simhook.Tick();", false)
				r.sum.Ticks++
			}
		case *ast.FuncLit:
			if r.tick && n.Body != nil {
				r.insert(n.Body.Lbrace+1, "simhook.Tick();", false)
				r.sum.Ticks++
			}
		case *ast.ForStmt:
			if r.tick {
				r.insert(n.Body.Lbrace+1, "simhook.Tick();", false)
				r.sum.Ticks++
			}
		case *ast.RangeStmt:
			if r.tick {
				r.insert(n.Body.Lbrace+1, "simhook.Tick();", false)
				r.sum.Ticks++
			}
			t := info.TypeOf(n.X)
			if r.maps && isMap(t) {
				if n.Key == nil && n.Value == nil {
					r.sum.Skipped["range-without-variables"]++
				} else {
					s := r.site(n.Pos())
					r.wrap(n.X, "simhook.Range(", fmt.Sprintf(", %q)", s))
					r.sum.MapRanges++
					r.sum.Sites = append(r.sum.Sites, s)
				}
			}
			if r.chans && isChan(t) {
				s := r.site(n.Pos())
				r.wrap(n.X, "simhook.ChanRange(", fmt.Sprintf(", %q)", s))
				r.sum.ChanSites++
			}
			if r.locks && isChan(t) {
				r.wrap(n.X, "simhook.RangeChan(", ")")
				r.sum.LockSites++
			}
		case *ast.GoStmt:
			if r.locks {
				r.rewriteGo(n) // the goroutine becomes a task of the scheduler
				r.sum.LockSites++
			} else if r.chans {
				// C19: goroutines of the builder package park at every
				// channel operation and are released by the tape
			} else {
				r.note("go-statement")
			}
		case *ast.CallExpr:
			if r.locks {
				r.rewriteLock(n)
			}
			path, name := r.pkgFunc(n.Fun)
			switch {
			case path == "math/rand" || path == "math/rand/v2" || path == "crypto/rand":
				r.note(path)
			case path == "time" && (name == "Sleep" || name == "After" || name == "Tick" || name == "NewTimer" || name == "NewTicker" || name == "Since" || name == "Until" || name == "AfterFunc"):
				r.note("time." + name)
			case path == "os" && (name == "Getenv" || name == "Getpid" || name == "Hostname"):
				r.note("os." + name)
			}
			switch {
			case r.maps && path == "golang.org/x/exp/maps" && (name == "Keys" || name == "Values"):
				s := r.site(n.Pos())
				r.wrap(n, "simhook.Permute(", fmt.Sprintf(", %q)", s))
				r.sum.MapsCalls++
				r.sum.Sites = append(r.sum.Sites, s)
			case r.maps && path == "maps" && (name == "Keys" || name == "Values"):
				s := r.site(n.Pos())
				r.wrap(n, "simhook.PermuteSeq(", fmt.Sprintf(", %q)", s))
				r.sum.MapsCalls++
				r.sum.Sites = append(r.sum.Sites, s)
			case r.maps && path == "maps" && name == "All":
				s := r.site(n.Pos())
				r.wrap(n, "simhook.PermuteSeq2(", fmt.Sprintf(", %q)", s))
				r.sum.MapsCalls++
				r.sum.Sites = append(r.sum.Sites, s)
			case r.clock && path == "time" && name == "Now":
				r.replace(n.Fun.Pos(), n.Fun.End(), "simhook.Now")
				r.usedTime = true
				r.sum.ClockSites++
			}
			if r.chans {
				if id, ok := n.Fun.(*ast.Ident); ok && id.Name == "close" {
					if _, isBuiltin := info.Uses[id].(*types.Builtin); isBuiltin {
						yieldBefore(n.Pos())
					}
				}
			}
			if r.locks {
				if id, ok := n.Fun.(*ast.Ident); ok && id.Name == "close" {
					if _, isBuiltin := info.Uses[id].(*types.Builtin); isBuiltin {
						r.replace(id.Pos(), id.End(), "simhook.Close")
						r.sum.LockSites++
					}
				}
			}
		case *ast.SendStmt:
			if r.chans {
				yieldBefore(n.Pos())
			}
			if r.locks {
				if inSelectComm(stack) {
					r.note("channel-op-in-select(unmodelled)")
				} else {
					// ch <- v  =>  simhook.Send(ch, v)
					r.insert(n.Pos(), "simhook.Send(", false)
					r.replace(n.Arrow, n.Arrow+2, ",")
					r.insert(n.End(), ")", true)
					r.sum.LockSites++
				}
			}
		case *ast.AssignStmt:
			if r.locks && len(n.Lhs) == 2 && len(n.Rhs) == 1 {
				if u, ok := n.Rhs[0].(*ast.UnaryExpr); ok && u.Op == token.ARROW && !inSelectComm(stack) {
					recv2[u] = true
				}
			}
		case *ast.ValueSpec:
			if r.locks && len(n.Names) == 2 && len(n.Values) == 1 {
				if u, ok := n.Values[0].(*ast.UnaryExpr); ok && u.Op == token.ARROW {
					recv2[u] = true
				}
			}
		case *ast.UnaryExpr:
			if r.chans && n.Op == token.ARROW {
				yieldBefore(n.Pos())
			}
			if r.locks && n.Op == token.ARROW {
				if inSelectComm(stack) {
					r.note("channel-op-in-select(unmodelled)")
				} else {
					// <-ch  =>  simhook.Recv(ch)   /   v, ok := <-ch  =>  simhook.Recv2(ch)
					fn := "simhook.Recv("
					if recv2[n] {
						fn = "simhook.Recv2("
					}
					r.replace(n.OpPos, n.OpPos+2, fn)
					r.insert(n.End(), ")", true)
					r.sum.LockSites++
				}
			}
		case *ast.SelectStmt:
			r.note("select-statement")
			if r.chans {
				yieldBefore(n.Pos())
			}
		}
		return true
	})

	if len(r.edits) == 0 {
		return nil
	}
	// import + keep "time" used
	imp := fmt.Sprintf("; import simhook %q", hookImport)
	r.seq++
	r.edits = append(r.edits, edit{start: r.off(r.file.Name.End()), end: r.off(r.file.Name.End()), rank: r.seq, text: imp})
	tail := "\nvar _ = simhook.Tick\n"
	if r.usedTime {
		tail += "var _ = time.Now\n"
	}

	sort.SliceStable(r.edits, func(i, j int) bool {
		if r.edits[i].start != r.edits[j].start {
			return r.edits[i].start < r.edits[j].start
		}
		return r.edits[i].rank < r.edits[j].rank
	})
	var out []byte
	pos := 0
	for _, e := range r.edits {
		if e.start < pos {
			return fmt.Errorf("%s: overlapping edits at offset %d", r.rel, e.start)
		}
		out = append(out, src[pos:e.start]...)
		out = append(out, e.text...)
		pos = e.end
	}
	out = append(out, src[pos:]...)
	out = append(out, tail...)
	r.sum.Files++
	return os.WriteFile(fname, out, 0o644)
}
