// Command check is the supervisor: it copies /repo's working tree to a scratch
// directory, instruments it, builds the worker of one property against it,
// runs the cases of a tier on up to 16 worker processes, minimises and records
// violations as replay files, consults the known-findings file and writes the
// evidence file.  It does not link the repository itself.
//
//	check <ID> [--tier quick|thorough] [--seed N] [--cases N] [--procs N] [--keep]
//	check <ID> --replay <file>
//	check <ID> --selftest [--cases N]
//
// Exit status: 0 = property held on everything explored (KNOWN-FINDING lines
// allowed); 1 = violation (a line "VIOLATION property=<id> replay=<path>" is
// printed for each); 2 = harness trouble (never reported as a violation).
package main

import (
	"bufio"
	"bytes"
	"encoding/binary"
	"encoding/json"
	"flag"
	"fmt"
	"io"
	"io/fs"
	"os"
	"os/exec"
	"path/filepath"
	"regexp"
	"sort"
	"strconv"
	"strings"
	"sync"
	"time"
)

// repoDir is /repo; VERIF_REPO may point experiments (seeded changes applied
// to a scratch copy) elsewhere.  Registered checks never set it.
var repoDir = func() string {
	if d := os.Getenv("VERIF_REPO"); d != "" {
		return d
	}
	return "/repo"
}()

// verifDir is /verif unless VERIF_DIR points at a snapshot of it (background
// experiments started with `vp run`); registered checks always run in /verif.
var verifDir = func() string {
	if d := os.Getenv("VERIF_DIR"); d != "" {
		return d
	}
	return "/verif"
}()

type tierCfg struct {
	cases   uint64
	timeout time.Duration // per chunk watchdog
}

type propCfg struct {
	id         string
	worker     string   // sub-directory of harness/
	instrument []string // flags for cmd/rewrite
	goCmd      string   // "go" or "go1.26.8"
	race       bool
	testBinary bool
	tiers      map[string]tierCfg
	chunk      uint64 // cases per worker process invocation
	planned    bool   // the worker computes the number of cases (-plan)
	level      string
	rule       string
	real       []string
	stubs      []string
	assume     []string
	note       string
}

var props = map[string]*propCfg{}

func register(p *propCfg) { props[p.id] = p }

// ---- protocol types (mirror harness/wk) -----------------------------------

type violation struct {
	Oracle      string   `json:"oracle"`
	Fingerprint string   `json:"fingerprint"`
	Message     string   `json:"message"`
	Trace       []string `json:"trace,omitempty"`
}

type outLine struct {
	K        string           `json:"k"`
	Case     uint64           `json:"case,omitempty"`
	V        *violation       `json:"v,omitempty"`
	Tape     []uint64         `json:"tape,omitempty"`
	Orig     int              `json:"orig_len,omitempty"`
	Runs     int              `json:"shrink_runs,omitempty"`
	Cases    int64            `json:"cases,omitempty"`
	Nontriv  int64            `json:"nontrivial,omitempty"`
	Counters map[string]int64 `json:"counters,omitempty"`
	Classes  []string         `json:"classes,omitempty"`
	Samples  []any            `json:"samples,omitempty"`
	Msg      string           `json:"msg,omitempty"`
	WallS    float64          `json:"wall_s,omitempty"`
	Dups     map[string]int64 `json:"dups,omitempty"`
	Sig      uint64           `json:"sig,omitempty"`
}

type replayFile struct {
	Property    string   `json:"property"`
	Seed        uint64   `json:"seed"`
	Case        uint64   `json:"case"`
	Tier        string   `json:"tier"`
	Harness     string   `json:"harness_version"`
	Instrument  string   `json:"instrumentation,omitempty"`
	Oracle      string   `json:"oracle"`
	Fingerprint string   `json:"fingerprint"`
	Message     string   `json:"message"`
	Tape        []uint64 `json:"tape"`
	SeedOnly    bool     `json:"seed_only,omitempty"`
	OrigTapeLen int      `json:"orig_tape_len,omitempty"`
	ShrinkRuns  int      `json:"shrink_runs,omitempty"`
	Trace       []string `json:"trace,omitempty"`
}

type knownFinding struct {
	Property    string `json:"property"`
	Fingerprint string `json:"fingerprint"`
	Prefix      string `json:"fingerprint_prefix,omitempty"` // matches a family of fingerprints
	Status      string `json:"status"`                       // "known" or "fixed"
	Commit      string `json:"commit,omitempty"`
	Description string `json:"description"`
	Example     string `json:"example_replay,omitempty"`
}

func die(format string, args ...any) {
	fmt.Fprintf(os.Stderr, "check: "+format+"\n", args...)
	os.Exit(2)
}

func goEnv() []string {
	env := os.Environ()
	env = append(env, "GOFLAGS=-mod=mod", "GOPROXY=off", "GOSUMDB=off", "GOTOOLCHAIN=local", "CGO_ENABLED=1")
	return env
}

func run(dir string, env []string, name string, args ...string) ([]byte, error) {
	cmd := exec.Command(name, args...)
	cmd.Dir = dir
	cmd.Env = env
	return cmd.CombinedOutput()
}

func copyTree(src, dst string, skip func(rel string, d fs.DirEntry) bool) error {
	return filepath.WalkDir(src, func(path string, d fs.DirEntry, err error) error {
		if err != nil {
			return err
		}
		rel, _ := filepath.Rel(src, path)
		if rel != "." && skip != nil && skip(rel, d) {
			if d.IsDir() {
				return filepath.SkipDir
			}
			return nil
		}
		target := filepath.Join(dst, rel)
		if d.IsDir() {
			return os.MkdirAll(target, 0o755)
		}
		if !d.Type().IsRegular() {
			return nil
		}
		in, err := os.Open(path)
		if err != nil {
			return err
		}
		defer in.Close()
		out, err := os.Create(target)
		if err != nil {
			return err
		}
		if _, err := io.Copy(out, in); err != nil {
			out.Close()
			return err
		}
		return out.Close()
	})
}

type build struct {
	scratch   string
	worker    string
	native    bool // map-order seam fell back to Go's native order
	rewriteJS map[string]any
	instr     string
}

// prepare copies, instruments and builds.
func prepare(p *propCfg, keep bool) *build {
	base := os.Getenv("TMPDIR")
	if base == "" {
		base = "/tmp"
	}
	scratch := filepath.Join(base, "verif-scratch", fmt.Sprintf("%s-%d", p.id, os.Getpid()))
	os.RemoveAll(scratch)
	if err := os.MkdirAll(scratch, 0o755); err != nil {
		die("mkdir scratch: %v", err)
	}
	b := &build{scratch: scratch}
	ensureTools()

	doCopy := func() {
		rdir := filepath.Join(scratch, "repo")
		os.RemoveAll(rdir)
		err := copyTree(repoDir, rdir, func(rel string, d fs.DirEntry) bool {
			return rel == ".git" || strings.HasPrefix(rel, "zzverif")
		})
		if err != nil {
			cleanup(b, keep)
			die("copy %s: %v", repoDir, err)
		}
		err = copyTree(filepath.Join(verifDir, "harness"), filepath.Join(rdir, "zzverif"), nil)
		if err != nil {
			cleanup(b, keep)
			die("copy harness: %v", err)
		}
	}
	doBuild := func() ([]byte, error) {
		rdir := filepath.Join(scratch, "repo")
		b.worker = filepath.Join(scratch, "worker-"+p.id)
		var args []string
		if p.testBinary {
			args = []string{"test", "-c", "-trimpath", "-vet=off", "-o", b.worker}
		} else {
			args = []string{"build", "-trimpath", "-o", b.worker}
		}
		if p.race {
			args = append(args, "-race")
		}
		args = append(args, "./zzverif/"+p.worker)
		return run(rdir, goEnv(), p.goCmd, args...)
	}

	doCopy()
	if len(p.instrument) > 0 {
		args := append([]string{"-dir", filepath.Join(scratch, "repo")}, p.instrument...)
		out, err := run(verifDir, goEnv(), filepath.Join(verifDir, "bin", "rewrite"), args...)
		if err != nil {
			fmt.Fprintf(os.Stderr, "check: instrumentation failed, falling back to the uninstrumented tree (native map order, no step counter):\n%s\n", out)
			b.native = true
			doCopy()
		} else {
			lines := strings.Split(strings.TrimSpace(string(out)), "\n")
			json.Unmarshal([]byte(lines[len(lines)-1]), &b.rewriteJS)
			b.instr = strings.Join(p.instrument, " ")
		}
	}
	out, err := doBuild()
	if err != nil && !b.native && len(p.instrument) > 0 {
		// does the uninstrumented tree build?  then the rewriter is at fault
		fmt.Fprintf(os.Stderr, "check: build of the instrumented tree failed:\n%s\ncheck: retrying uninstrumented\n", out)
		b.native = true
		b.instr = ""
		doCopy()
		out, err = doBuild()
	}
	if err != nil {
		cleanup(b, keep)
		die("build of worker for %s against %s failed:\n%s", p.id, repoDir, out)
	}
	return b
}

func cleanup(b *build, keep bool) {
	if keep {
		fmt.Fprintf(os.Stderr, "check: keeping scratch directory %s\n", b.scratch)
		return
	}
	os.RemoveAll(b.scratch)
	// remove the parent if empty
	os.Remove(filepath.Dir(b.scratch))
}

func ensureTools() {
	rw := filepath.Join(verifDir, "bin", "rewrite")
	if st, err := os.Stat(rw); err == nil {
		// rebuild if sources are newer
		src, _ := os.Stat(filepath.Join(verifDir, "cmd", "rewrite", "main.go"))
		if src == nil || !src.ModTime().After(st.ModTime()) {
			return
		}
	}
	out, err := run(verifDir, goEnv(), "go", "build", "-o", rw, "./cmd/rewrite")
	if err != nil {
		die("building cmd/rewrite: %v\n%s", err, out)
	}
}

// ---- running workers -------------------------------------------------------------

type chunkResult struct {
	from, to uint64
	lines    []outLine
	sigs     []uint64
	crash    *crashInfo
	err      error
}

type crashInfo struct {
	caseIdx uint64
	started bool
	stderr  string
	reason  string // "timeout", "exit N", "signal"
	exit    int
}

func workerEnv(p *propCfg, b *build, extra ...string) []string {
	env := os.Environ()
	if b.native {
		env = append(env, "VERIF_NATIVE=1")
	}
	if p.race {
		env = append(env, "GORACE=halt_on_error=1 exitcode=66 history_size=3")
	}
	env = append(env, "GOTRACEBACK=all")
	return append(env, extra...)
}

func workerArgs(p *propCfg, args ...string) []string {
	if p.testBinary {
		// a test binary rejects foreign flags: they travel in the environment
		// (see workerCmd)
		return []string{"-test.run", "^TestWorker$", "-test.timeout", "0"}
	}
	return args
}

// workerCmd builds the command for one worker invocation.
func workerCmd(p *propCfg, b *build, extraEnv []string, args ...string) *exec.Cmd {
	cmd := exec.Command(b.worker, workerArgs(p, args...)...)
	cmd.Env = workerEnv(p, b, extraEnv...)
	if p.testBinary {
		cmd.Env = append(cmd.Env, "VERIF_WORKER_ARGS="+strings.Join(args, "\x1f"))
	}
	cmd.Dir = b.scratch
	return cmd
}

// runChunk runs cases [from,to) in one worker process.
func runChunk(p *propCfg, b *build, seed uint64, tier string, from, to uint64, idx int, timeout time.Duration, extraArgs ...string) *chunkResult {
	res := &chunkResult{from: from, to: to}
	outFile := filepath.Join(b.scratch, fmt.Sprintf("out-%d-%d.jsonl", from, idx))
	hashFile := filepath.Join(b.scratch, fmt.Sprintf("sig-%d-%d.bin", from, idx))
	args := []string{"-seed", strconv.FormatUint(seed, 10), "-from", strconv.FormatUint(from, 10), "-to", strconv.FormatUint(to, 10),
		"-tier", tier, "-out", outFile, "-hashes", hashFile}
	args = append(args, extraArgs...)
	cmd := workerCmd(p, b, nil, args...)
	var stderr bytes.Buffer
	cmd.Stderr = &stderr
	cmd.Stdout = &stderr
	if err := cmd.Start(); err != nil {
		res.err = err
		return res
	}
	done := make(chan error, 1)
	go func() { done <- cmd.Wait() }()
	var werr error
	timedOut := false
	select {
	case werr = <-done:
	case <-time.After(timeout):
		timedOut = true
		cmd.Process.Kill()
		werr = <-done
	}
	res.lines = readLines(outFile)
	if data, err := os.ReadFile(hashFile); err == nil {
		for i := 0; i+8 <= len(data); i += 8 {
			res.sigs = append(res.sigs, binary.LittleEndian.Uint64(data[i:]))
		}
	}
	os.Remove(outFile)
	os.Remove(hashFile)
	hasSummary := false
	var lastStart uint64
	started := false
	for _, l := range res.lines {
		switch l.K {
		case "summary":
			hasSummary = true
		case "start":
			lastStart = l.Case
			started = true
		}
	}
	if werr == nil && hasSummary {
		return res
	}
	ci := &crashInfo{caseIdx: lastStart, started: started, stderr: stderr.String()}
	switch {
	case timedOut:
		ci.reason = "timeout"
	default:
		ci.reason = fmt.Sprint(werr)
		if ee, ok := werr.(*exec.ExitError); ok {
			ci.exit = ee.ExitCode()
		}
	}
	res.crash = ci
	return res
}

func readLines(path string) []outLine {
	fd, err := os.Open(path)
	if err != nil {
		return nil
	}
	defer fd.Close()
	var lines []outLine
	sc := bufio.NewScanner(fd)
	sc.Buffer(make([]byte, 1<<20), 1<<28)
	for sc.Scan() {
		var l outLine
		if err := json.Unmarshal(sc.Bytes(), &l); err != nil {
			continue // torn last line of a killed worker
		}
		lines = append(lines, l)
	}
	return lines
}

// queryPlan asks the worker how many cases the tier has.
func queryPlan(p *propCfg, b *build, seed uint64, tier string) uint64 {
	outFile := filepath.Join(b.scratch, "plan.jsonl")
	args := []string{"-seed", strconv.FormatUint(seed, 10), "-tier", tier, "-out", outFile, "-plan"}
	cmd := workerCmd(p, b, nil, args...)
	out, err := cmd.CombinedOutput()
	if err != nil {
		cleanupGlobal()
		die("worker -plan failed: %v\n%s", err, out)
	}
	for _, l := range readLines(outFile) {
		if l.K == "plan" {
			os.Remove(outFile)
			return uint64(l.Cases)
		}
	}
	cleanupGlobal()
	die("worker -plan printed no plan:\n%s", out)
	return 0
}

var harnessTrouble = regexp.MustCompile(`(?m)^(HARNESS-PANIC|worker:)`)

type batch struct {
	cases     int64
	nontriv   int64
	counters  map[string]int64
	classes   map[string]struct{}
	samples   []any
	sigs      []uint64
	viols     []*foundViolation
	dups      map[string]int64
	crashes   int
	nondet    []outLine
	truncated bool
}

type foundViolation struct {
	caseIdx  uint64
	v        violation
	tape     []uint64
	seedOnly bool
	orig     int
	runs     int
	raw      bool // tape not minimised yet
	nondet   bool
}

// recoverCrashTape re-runs a crashing case with crash-safe tape recording and
// then minimises the recorded tape at process level (one worker process per
// candidate).  On success fv carries an explicit tape instead of seedOnly.
func recoverCrashTape(p *propCfg, b *build, fv *foundViolation, seed uint64, tier string, idx int) {
	tapeFile := filepath.Join(b.scratch, fmt.Sprintf("crashtape-%d.bin", idx))
	defer os.Remove(tapeFile)
	r := runChunk(p, b, seed, tier, fv.caseIdx, fv.caseIdx+1, 7000+idx, p.tiers["thorough"].timeout, "-tapeout", tapeFile)
	if r.crash == nil {
		return // did not crash again: keep the seed-only replay
	}
	data, err := os.ReadFile(tapeFile)
	if err != nil || len(data) < 8 {
		return
	}
	var vals []uint64
	for i := 0; i+8 <= len(data); i += 8 {
		vals = append(vals, binary.LittleEndian.Uint64(data[i:]))
	}
	runs := 0
	try := func(cand []uint64) bool {
		runs++
		rf := &replayFile{Property: p.id, Seed: seed, Case: fv.caseIdx, Tier: tier, Tape: cand, Fingerprint: fv.v.Fingerprint}
		v, err := replayOnce(p, b, rf, 7100+idx*1000+runs)
		return err == nil && v != nil && v.Fingerprint == fv.v.Fingerprint
	}
	if !try(vals) {
		return // the recorded prefix does not reproduce: keep the seed-only replay
	}
	orig := len(vals)
	deadline := time.Now().Add(90 * time.Second)
	cur := vals
	for _, w := range []int{256, 64, 16, 4, 1} {
		for i := 0; i+w <= len(cur) && runs < 80 && time.Now().Before(deadline); {
			cand := append(append([]uint64{}, cur[:i]...), cur[i+w:]...)
			if try(cand) {
				cur = cand
			} else {
				i += w
			}
		}
	}
	for i := 0; i < len(cur) && runs < 110 && time.Now().Before(deadline); i++ {
		if cur[i] == 0 {
			continue
		}
		cand := append([]uint64{}, cur...)
		cand[i] = 0
		if try(cand) {
			cur = cand
		}
	}
	for len(cur) > 0 && cur[len(cur)-1] == 0 {
		cur = cur[:len(cur)-1]
	}
	fv.tape = cur
	fv.seedOnly = false
	fv.orig = orig
	fv.runs = runs
}

// shrinkOne minimises the tape of fv in a worker process of its own.
func shrinkOne(p *propCfg, b *build, fv *foundViolation, seed uint64, tier string, idx int) {
	rf := &replayFile{Property: p.id, Seed: seed, Case: fv.caseIdx, Tier: tier, Fingerprint: fv.v.Fingerprint, Tape: fv.tape}
	in := filepath.Join(b.scratch, fmt.Sprintf("shrink-in-%d.json", idx))
	out := filepath.Join(b.scratch, fmt.Sprintf("shrink-out-%d.jsonl", idx))
	data, _ := json.Marshal(rf)
	os.WriteFile(in, data, 0o644)
	cmd := workerCmd(p, b, nil, "-shrink", in, "-out", out, "-seed", strconv.FormatUint(seed, 10), "-tier", tier)
	done := make(chan error, 1)
	if err := cmd.Start(); err != nil {
		return
	}
	go func() { done <- cmd.Wait() }()
	select {
	case <-done:
	case <-time.After(5 * time.Minute):
		cmd.Process.Kill()
		<-done
	}
	for _, l := range readLines(out) {
		switch l.K {
		case "viol":
			fv.v = *l.V
			fv.tape = l.Tape
			fv.orig = l.Orig
			fv.runs = l.Runs
			fv.raw = false
		case "nondeterministic":
			fv.nondet = true
		}
	}
	os.Remove(in)
	os.Remove(out)
}

// raceFingerprint extracts the two innermost repository functions of a race
// report.
func raceFingerprint(stderr string) (string, bool) {
	if !strings.Contains(stderr, "WARNING: DATA RACE") {
		return "", false
	}
	var funcs []string
	blocks := strings.Split(stderr, "\n\n")
	fnRe := regexp.MustCompile(`(?m)^\s+(seehuhn\.de/go/sfnt\S*?)\(\)\s*$`)
	for _, blk := range blocks {
		h := strings.TrimSpace(blk)
		if !(strings.HasPrefix(h, "WARNING: DATA RACE") || strings.HasPrefix(h, "Previous ") ||
			strings.HasPrefix(h, "Read at") || strings.HasPrefix(h, "Write at")) {
			continue
		}
		for _, m := range fnRe.FindAllStringSubmatch(blk, -1) {
			if strings.Contains(m[1], "/zzverif/") {
				continue
			}
			funcs = append(funcs, strings.TrimPrefix(strings.TrimPrefix(m[1], "seehuhn.de/go/sfnt"), "/"))
			break
		}
		if len(funcs) == 2 {
			break
		}
	}
	sort.Strings(funcs)
	return "race@" + strings.Join(funcs, "+"), true
}

func crashViolation(p *propCfg, ci *crashInfo) violation {
	tail := ci.stderr
	if len(tail) > 6000 {
		tail = tail[:3000] + "\n...\n" + tail[len(tail)-3000:]
	}
	if fp, ok := raceFingerprint(ci.stderr); ok {
		return violation{Oracle: "race", Fingerprint: fp, Message: "the Go race detector reported a data race:\n" + tail}
	}
	if i := strings.Index(ci.stderr, "SIM-DEADLOCK:"); i >= 0 {
		line := ci.stderr[i:]
		if j := strings.Index(line, "\n"); j >= 0 {
			line = line[:j]
		}
		kinds := map[string]bool{}
		for _, m := range regexp.MustCompile(`\[task \d+: ([^\]]+)\]`).FindAllStringSubmatch(line, -1) {
			kinds[m[1]] = true
		}
		var ks []string
		for k := range kinds {
			ks = append(ks, k)
		}
		sort.Strings(ks)
		return violation{Oracle: "deadlock", Fingerprint: "deadlock@" + strings.Join(ks, "+"),
			Message: "under this schedule every unfinished goroutine waits for another one (channels, wait groups and mutexes of the code under test are modelled by the scheduler):\n" + line}
	}
	if ci.reason == "timeout" {
		return violation{Oracle: "no-termination", Fingerprint: "no-termination@watchdog", Message: "worker killed by the wall-clock watchdog while running this case\n" + tail}
	}
	loc := "unknown"
	fnRe := regexp.MustCompile(`(?m)^(seehuhn\.de/go/sfnt\S*?)\([^()]*\)\s*$`)
	for _, m := range fnRe.FindAllStringSubmatch(ci.stderr, -1) {
		if !strings.Contains(m[1], "/zzverif/") {
			loc = strings.TrimPrefix(strings.TrimPrefix(m[1], "seehuhn.de/go/sfnt"), "/")
			break
		}
	}
	kind := "crash"
	switch {
	case strings.Contains(ci.stderr, "stack overflow"):
		kind = "stack-overflow"
	case strings.Contains(ci.stderr, "out of memory") || strings.Contains(ci.stderr, "cannot allocate"):
		kind = "out-of-memory"
	case strings.Contains(ci.stderr, "all goroutines are asleep"):
		kind = "deadlock"
	}
	return violation{Oracle: kind, Fingerprint: kind + "@" + loc, Message: fmt.Sprintf("worker process died (%s) while running this case\n%s", ci.reason, tail)}
}

func runBatch(p *propCfg, b *build, seed uint64, tier string, total uint64, procs int, deadline time.Time) *batch {
	bt := &batch{counters: map[string]int64{}, classes: map[string]struct{}{}, dups: map[string]int64{}}
	tc := p.tiers[tier]
	chunk := p.chunk
	if chunk == 0 {
		per := uint64(procs * 4)
		if p.planned {
			per = uint64(procs) // each worker process rebuilds the corpus: fewer, larger chunks
		}
		chunk = (total + per - 1) / per
		if chunk == 0 {
			chunk = 1
		}
	}
	type job struct{ from, to uint64 }
	var jobs []job
	for f := uint64(0); f < total; f += chunk {
		t := f + chunk
		if t > total {
			t = total
		}
		jobs = append(jobs, job{f, t})
	}
	var mu sync.Mutex
	jobCh := make(chan job)
	var wg sync.WaitGroup
	var fatal string
	handle := func(r *chunkResult) (resume uint64, again bool) {
		mu.Lock()
		defer mu.Unlock()
		if r.err != nil {
			fatal = "starting worker: " + r.err.Error()
			return 0, false
		}
		for _, l := range r.lines {
			switch l.K {
			case "summary":
				bt.cases += l.Cases
				bt.nontriv += l.Nontriv
				for k, n := range l.Counters {
					bt.counters[k] += n
				}
				for _, c := range l.Classes {
					bt.classes[c] = struct{}{}
				}
				if len(bt.samples) < 3 {
					bt.samples = append(bt.samples, l.Samples...)
				}
				for k, n := range l.Dups {
					bt.dups[k] += n
				}
			case "viol", "viol-raw":
				bt.viols = append(bt.viols, &foundViolation{caseIdx: l.Case, v: *l.V, tape: l.Tape, orig: l.Orig, runs: l.Runs, raw: l.K == "viol-raw"})
			case "nondeterministic":
				bt.nondet = append(bt.nondet, l)
			}
		}
		bt.sigs = append(bt.sigs, r.sigs...)
		if r.crash == nil {
			return 0, false
		}
		if r.crash.exit == 77 && strings.Contains(r.crash.stderr, "SIM-BLOCKED") {
			// harness limitation, not a violation: count and go on
			bt.counters["inconclusive_blocked_on_unmodelled_primitive"]++
			bt.cases += int64(r.crash.caseIdx-r.from) + 1
			if r.crash.caseIdx+1 < r.to {
				return r.crash.caseIdx + 1, true
			}
			return 0, false
		}
		if harnessTrouble.MatchString(r.crash.stderr) || !r.crash.started {
			fatal = fmt.Sprintf("worker failed (%s):\n%s", r.crash.reason, r.crash.stderr)
			return 0, false
		}
		bt.crashes++
		v := crashViolation(p, r.crash)
		dup := false
		for _, o := range bt.viols {
			if o.v.Fingerprint == v.Fingerprint {
				dup = true
			}
		}
		if dup {
			bt.dups[v.Fingerprint]++
		} else {
			bt.viols = append(bt.viols, &foundViolation{caseIdx: r.crash.caseIdx, v: v, seedOnly: true})
		}
		// cases before the crash that completed are lost from the summary:
		// count them conservatively as run but not as non-trivial
		bt.cases += int64(r.crash.caseIdx-r.from) + 1
		if r.crash.caseIdx+1 < r.to && bt.crashes < 50 {
			return r.crash.caseIdx + 1, true
		}
		return 0, false
	}
	for w := 0; w < procs; w++ {
		wg.Add(1)
		go func(w int) {
			defer wg.Done()
			for j := range jobCh {
				from := j.from
				for {
					mu.Lock()
					stop := fatal != ""
					mu.Unlock()
					if stop {
						break
					}
					r := runChunk(p, b, seed, tier, from, j.to, w, tc.timeout)
					resume, again := handle(r)
					if !again {
						break
					}
					from = resume
				}
			}
		}(w)
	}
	for _, j := range jobs {
		if time.Now().After(deadline) {
			bt.truncated = true
			break
		}
		mu.Lock()
		stop := fatal != ""
		mu.Unlock()
		if stop {
			break
		}
		jobCh <- j
	}
	close(jobCh)
	wg.Wait()
	if fatal != "" {
		cleanupGlobal()
		die("%s", fatal)
	}
	return bt
}

var globalBuild *build
var globalKeep bool

func cleanupGlobal() {
	if globalBuild != nil {
		cleanup(globalBuild, globalKeep)
	}
}

func loadKnown() []knownFinding {
	data, err := os.ReadFile(filepath.Join(verifDir, "known_findings.json"))
	if err != nil {
		return nil
	}
	var kf []knownFinding
	if err := json.Unmarshal(data, &kf); err != nil {
		die("known_findings.json: %v", err)
	}
	return kf
}

func matchesKnown(id, fp string) bool {
	for _, k := range loadKnown() {
		if k.Property == id && k.Status == "known" &&
			(k.Fingerprint != "" && k.Fingerprint == fp || k.Prefix != "" && strings.HasPrefix(fp, k.Prefix)) {
			return true
		}
	}
	return false
}

func sanitize(s string) string {
	s = regexp.MustCompile(`[^A-Za-z0-9._-]+`).ReplaceAllString(s, "_")
	if len(s) > 80 {
		s = s[:80]
	}
	return s
}

func distinct(sigs []uint64) int64 {
	sort.Slice(sigs, func(i, j int) bool { return sigs[i] < sigs[j] })
	var n int64
	for i, s := range sigs {
		if i == 0 || s != sigs[i-1] {
			n++
		}
	}
	return n
}

// replayOnce runs a replay file in a fresh worker process and returns the
// violation it produced (nil if none).
func replayOnce(p *propCfg, b *build, rf *replayFile, idx int) (*violation, error) {
	if rf.SeedOnly {
		r := runChunk(p, b, rf.Seed, rf.Tier, rf.Case, rf.Case+1, 9000+idx, p.tiers["thorough"].timeout, "-noshrink")
		if r.err != nil {
			return nil, r.err
		}
		if r.crash != nil {
			if harnessTrouble.MatchString(r.crash.stderr) {
				return nil, fmt.Errorf("worker failed: %s", r.crash.stderr)
			}
			v := crashViolation(p, r.crash)
			return &v, nil
		}
		for _, l := range r.lines {
			if l.K == "viol" || l.K == "viol-raw" {
				return l.V, nil
			}
		}
		return nil, nil
	}
	tmp := filepath.Join(b.scratch, fmt.Sprintf("replay-in-%d.json", idx))
	data, _ := json.Marshal(rf)
	os.WriteFile(tmp, data, 0o644)
	outFile := filepath.Join(b.scratch, fmt.Sprintf("replay-out-%d.jsonl", idx))
	cmd := workerCmd(p, b, nil, "-replay", tmp, "-out", outFile)
	var stderr bytes.Buffer
	cmd.Stderr = &stderr
	cmd.Stdout = &stderr
	done := make(chan error, 1)
	if err := cmd.Start(); err != nil {
		return nil, err
	}
	go func() { done <- cmd.Wait() }()
	var werr error
	timedOut := false
	select {
	case werr = <-done:
	case <-time.After(p.tiers["thorough"].timeout):
		timedOut = true
		cmd.Process.Kill()
		werr = <-done
	}
	lines := readLines(outFile)
	os.Remove(tmp)
	os.Remove(outFile)
	for _, l := range lines {
		if l.K == "replayed" {
			return l.V, nil
		}
	}
	if harnessTrouble.MatchString(stderr.String()) {
		return nil, fmt.Errorf("worker failed: %s", stderr.String())
	}
	ci := &crashInfo{caseIdx: rf.Case, started: true, stderr: stderr.String(), reason: fmt.Sprint(werr)}
	if timedOut {
		ci.reason = "timeout"
	}
	v := crashViolation(p, ci)
	return &v, nil
}

func main() {
	if len(os.Args) < 2 {
		die("usage: check <ID> [--tier quick|thorough] [--seed N] [--replay file] [--selftest]")
	}
	id := os.Args[1]
	fl := flag.NewFlagSet("check", flag.ExitOnError)
	tier := fl.String("tier", "", "quick or thorough")
	seedFlag := fl.String("seed", "", "batch seed")
	casesFlag := fl.Uint64("cases", 0, "override the number of cases")
	procs := fl.Int("procs", 16, "worker processes")
	keep := fl.Bool("keep", false, "keep the scratch directory")
	replay := fl.String("replay", "", "replay file")
	selftest := fl.Bool("selftest", false, "determinism self-test")
	maxWall := fl.Duration("maxwall", 0, "wall-clock cap for the batch (0 = tier default)")
	noEvidence := fl.Bool("no-evidence", false, "do not write the evidence file (used for experiments)")
	fl.Parse(os.Args[2:])
	p := props[id]
	if p == nil {
		die("unknown property %q", id)
	}
	if *tier == "" {
		*tier = os.Getenv("VERIF_TIER")
	}
	if *tier == "" {
		*tier = "quick"
	}
	if *tier != "quick" && *tier != "thorough" {
		die("unknown tier %q", *tier)
	}
	seedStr := *seedFlag
	if seedStr == "" {
		seedStr = os.Getenv("VERIF_SEED")
	}
	seed := uint64(1)
	if seedStr != "" {
		s, err := strconv.ParseInt(seedStr, 10, 64)
		if err != nil {
			die("bad seed %q", seedStr)
		}
		seed = uint64(s)
	}
	fmt.Printf("check: property=%s tier=%s VERIF_SEED=%d\n", id, *tier, int64(seed))
	start := time.Now()
	globalKeep = *keep
	b := prepare(p, *keep)
	globalBuild = b
	buildS := time.Since(start).Seconds()

	if *replay != "" {
		data, err := os.ReadFile(*replay)
		if err != nil {
			cleanup(b, *keep)
			die("%v", err)
		}
		var rf replayFile
		if err := json.Unmarshal(data, &rf); err != nil {
			cleanup(b, *keep)
			die("replay file: %v", err)
		}
		v, err := replayOnce(p, b, &rf, 0)
		cleanup(b, *keep)
		if err != nil {
			die("%v", err)
		}
		if v == nil {
			fmt.Printf("REPLAY property=%s: no violation (recorded fingerprint %s)\n", id, rf.Fingerprint)
			os.Exit(0)
		}
		fmt.Printf("REPLAY property=%s fingerprint=%s (recorded %s)\n%s\n", id, v.Fingerprint, rf.Fingerprint, v.Message)
		for _, t := range v.Trace {
			fmt.Println("  ", t)
		}
		if v.Fingerprint == rf.Fingerprint {
			fmt.Printf("VIOLATION property=%s replay=%s\n", id, *replay)
		} else {
			fmt.Printf("VIOLATION property=%s replay=%s (different fingerprint)\n", id, *replay)
		}
		os.Exit(1)
	}

	total := p.tiers[*tier].cases
	if p.planned {
		total = queryPlan(p, b, seed, *tier)
	}
	if *casesFlag != 0 && (*casesFlag < total || !p.planned) {
		total = *casesFlag
	}

	if *selftest {
		ok := selfTest(p, b, seed, *tier, total)
		cleanup(b, *keep)
		if !ok {
			os.Exit(2)
		}
		os.Exit(0)
	}

	wallCap := *maxWall
	if wallCap == 0 {
		wallCap = 12 * time.Hour
	}
	bt := runBatch(p, b, seed, *tier, total, *procs, start.Add(wallCap))

	if len(bt.nondet) > 0 {
		l := bt.nondet[0]
		cleanup(b, *keep)
		die("replay of case %d did not reproduce its violation (%s): a source of nondeterminism escaped the simulator", l.Case, l.V.Fingerprint)
	}

	// one violation per fingerprint (lowest case index), minimised in a
	// worker process of its own
	sort.Slice(bt.viols, func(i, j int) bool { return bt.viols[i].caseIdx < bt.viols[j].caseIdx })
	{
		seen := map[string]bool{}
		var uniq []*foundViolation
		for _, fv := range bt.viols {
			if seen[fv.v.Fingerprint] {
				bt.dups[fv.v.Fingerprint]++
				continue
			}
			seen[fv.v.Fingerprint] = true
			uniq = append(uniq, fv)
		}
		bt.viols = uniq
		var wg sync.WaitGroup
		sem := make(chan struct{}, *procs)
		for i, fv := range bt.viols {
			if i >= 24 || matchesKnown(p.id, fv.v.Fingerprint) {
				continue
			}
			if fv.seedOnly {
				if i < 6 && fv.v.Oracle != "no-termination" && fv.v.Oracle != "out-of-memory" {
					wg.Add(1)
					go func(i int, fv *foundViolation) {
						defer wg.Done()
						sem <- struct{}{}
						defer func() { <-sem }()
						recoverCrashTape(p, b, fv, seed, *tier, i)
					}(i, fv)
				}
				continue
			}
			if !fv.raw {
				continue
			}
			wg.Add(1)
			go func(i int, fv *foundViolation) {
				defer wg.Done()
				sem <- struct{}{}
				defer func() { <-sem }()
				shrinkOne(p, b, fv, seed, *tier, i)
			}(i, fv)
		}
		wg.Wait()
	}
	for _, fv := range bt.viols {
		if fv.nondet {
			// The oracle failed on a real execution of the code, but replaying
			// the tape in a fresh process did not fail the same way: the tree
			// contains a source of nondeterminism the simulator does not own
			// (e.g. sync.Pool, which drops entries at random under -race).
			// The violation stands; the replay file says that it is unstable.
			fv.v.Message = "[NOT REPRODUCED ON REPLAY: the code under test depends on a source of nondeterminism outside the simulator's seams; the replay file records the original, unminimised tape]\n" + fv.v.Message
			fmt.Fprintf(os.Stderr, "check: case %d (%s) failed in the batch but not on replay\n", fv.caseIdx, fv.v.Fingerprint)
		}
	}
	known := loadKnown()
	os.MkdirAll(filepath.Join(verifDir, "replays"), 0o755)
	exit := 0
	newViol := 0
	knownHit := map[string]bool{}
	sort.Slice(bt.viols, func(i, j int) bool { return bt.viols[i].caseIdx < bt.viols[j].caseIdx })
	seenFP := map[string]bool{}
	for _, fv := range bt.viols {
		if seenFP[fv.v.Fingerprint] {
			continue
		}
		seenFP[fv.v.Fingerprint] = true
		isKnown := false
		for _, k := range known {
			if k.Property == id && k.Status == "known" &&
				(k.Fingerprint != "" && k.Fingerprint == fv.v.Fingerprint || k.Prefix != "" && strings.HasPrefix(fv.v.Fingerprint, k.Prefix)) {
				isKnown = true
				key := k.Fingerprint + k.Prefix
				if !knownHit[key] {
					fmt.Printf("KNOWN-FINDING: property=%s %s -- %s\n", id, fv.v.Fingerprint, k.Description)
					knownHit[key] = true
				}
			}
		}
		if isKnown {
			continue
		}
		rf := &replayFile{Property: id, Seed: seed, Case: fv.caseIdx, Tier: *tier, Harness: "1", Instrument: b.instr,
			Oracle: fv.v.Oracle, Fingerprint: fv.v.Fingerprint, Message: fv.v.Message, Tape: fv.tape, SeedOnly: fv.seedOnly,
			OrigTapeLen: fv.orig, ShrinkRuns: fv.runs, Trace: fv.v.Trace}
		if rf.Tape == nil {
			rf.Tape = []uint64{}
		}
		name := fmt.Sprintf("%s-%s-%d-%d.json", id, sanitize(fv.v.Fingerprint), int64(seed), fv.caseIdx)
		path := filepath.Join(verifDir, "replays", name)
		data, _ := json.MarshalIndent(rf, "", " ")
		if err := os.WriteFile(path, data, 0o644); err != nil {
			cleanup(b, *keep)
			die("writing replay file: %v", err)
		}
		fmt.Printf("violation: %s\n%s\n", fv.v.Fingerprint, indent(fv.v.Message))
		if len(fv.v.Trace) > 0 {
			n := len(fv.v.Trace)
			if n > 30 {
				n = 30
			}
			for _, t := range fv.v.Trace[len(fv.v.Trace)-n:] {
				fmt.Println("   ", t)
			}
		}
		fmt.Printf("VIOLATION property=%s replay=%s\n", id, path)
		exit = 1
		newViol++
	}

	wall := time.Since(start).Seconds()
	if !*noEvidence {
		writeEvidence(p, b, bt, *tier, seed, total, wall, buildS, newViol, len(knownHit))
	}
	cleanup(b, *keep)
	fmt.Printf("check: property=%s tier=%s cases=%d nontrivial_distinct=%d classes=%d violations=%d known=%d wall=%.1fs\n",
		id, *tier, bt.cases, distinct(bt.sigs), len(bt.classes), newViol, len(knownHit), wall)
	os.Exit(exit)
}

func indent(s string) string {
	lines := strings.Split(s, "\n")
	if len(lines) > 60 {
		lines = append(lines[:60], "...")
	}
	return "    " + strings.Join(lines, "\n    ")
}

func writeEvidence(p *propCfg, b *build, bt *batch, tier string, seed, total uint64, wall, buildS float64, newViol, knownViol int) {
	classes := make([]string, 0, len(bt.classes))
	for c := range bt.classes {
		classes = append(classes, c)
	}
	sort.Strings(classes)
	runS := wall - buildS
	if runS <= 0 {
		runS = 0.001
	}
	samples := bt.samples
	if len(samples) == 0 {
		samples = []any{"(no sample recorded)"}
	}
	mapSeam := "controlled (scratch-copy instrumentation)"
	if b.native {
		mapSeam = "native (instrumentation fell back; Go's own random order)"
	}
	faults := map[string]int64{}
	for k, v := range bt.counters {
		if strings.HasPrefix(k, "fault_") || strings.HasPrefix(k, "fam_") || strings.Contains(k, "short_reads") || strings.Contains(k, "zero_reads") || strings.HasPrefix(k, "eof_") {
			faults[k] = v
		}
	}
	cov := map[string]any{
		"faults_fired":        faults,
		"evaluations":         bt.cases,
		"distinct_nontrivial": distinct(bt.sigs),
		"rule":                p.rule,
		"samples":             samples,
		"exhaustive":          false,
		"counters":            bt.counters,
		"state_classes":       len(classes),
		"state_class_list":    truncate(classes, 400),
		"runs_per_hour":       int64(float64(bt.cases) / runS * 3600),
		"seeds":               []int64{int64(seed)},
		"cases_planned":       total,
		"truncated_by_cap":    bt.truncated,
		"simulated_time":      "not meaningful: the library has no timers or deadlines; the only clock read is simulated (see counters.clock_reads where present)",
		"real_components":     p.real,
		"stubbed_components":  p.stubs,
		"map_order_seam":      mapSeam,
		"instrumentation":     b.rewriteJS,
		"build_s":             buildS,
		"duplicate_violations": bt.dups,
		"worker_crashes":      bt.crashes,
	}
	if v, ok := bt.counters["exhaustive_files"]; ok && v > 0 && p.level == "fault_enumeration" {
		cov["exhaustive_note"] = "per-file exhaustiveness is reported in counters.exhaustive_files / sampled_files"
	}
	ev := map[string]any{
		"property_id": p.id,
		"tier":        tier,
		"seed":        int64(seed),
		"level":       p.level,
		"coverage":    cov,
		"assumptions": p.assume,
		"wall_s":      wall,
		"violations":  newViol,
		"known_findings_reported": knownViol,
	}
	os.MkdirAll(filepath.Join(verifDir, "evidence"), 0o755)
	data, _ := json.MarshalIndent(ev, "", " ")
	if err := os.WriteFile(filepath.Join(verifDir, "evidence", p.id+".json"), data, 0o644); err != nil {
		die("writing evidence: %v", err)
	}
}

func truncate(s []string, n int) []string {
	if len(s) > n {
		return s[:n]
	}
	return s
}

// selfTest runs the same cases in many fresh processes at several GOMAXPROCS
// values and compares the per-case digests.
func selfTest(p *propCfg, b *build, seed uint64, tier string, total uint64) bool {
	n := total
	if n > 300 {
		n = 300
	}
	if p.race && n > 48 {
		n = 48 // race-detector builds with up to 16 tasks per case: about a second per case
	}
	type key struct{ gmp, rep int }
	var ref []outLine
	ok := true
	runs := 0
	for _, gmp := range []int{1, 4, 16} {
		for rep := 0; rep < 10; rep++ {
			outFile := filepath.Join(b.scratch, fmt.Sprintf("self-%d-%d.jsonl", gmp, rep))
			args := []string{"-seed", strconv.FormatUint(seed, 10), "-from", "0", "-to", strconv.FormatUint(n, 10),
				"-tier", tier, "-out", outFile, "-digest", "-noshrink"}
			cmd := workerCmd(p, b, []string{fmt.Sprintf("GOMAXPROCS=%d", gmp)}, args...)
			out, err := cmd.CombinedOutput()
			if err != nil {
				fmt.Fprintf(os.Stderr, "selftest: worker failed: %v\n%s\n", err, out)
				return false
			}
			var digests []outLine
			for _, l := range readLines(outFile) {
				if l.K == "case" {
					digests = append(digests, l)
				}
			}
			os.Remove(outFile)
			runs++
			if ref == nil {
				ref = digests
				continue
			}
			if len(digests) != len(ref) {
				fmt.Printf("selftest: GOMAXPROCS=%d rep=%d: %d digests, reference has %d\n", gmp, rep, len(digests), len(ref))
				ok = false
				continue
			}
			for i := range ref {
				if ref[i].Sig != digests[i].Sig || ref[i].Msg != digests[i].Msg || ref[i].Orig != digests[i].Orig {
					fmt.Printf("selftest: GOMAXPROCS=%d rep=%d: case %d differs (sig %x vs %x, tape %d vs %d, %q vs %q)\n",
						gmp, rep, ref[i].Case, ref[i].Sig, digests[i].Sig, ref[i].Orig, digests[i].Orig, ref[i].Msg, digests[i].Msg)
					ok = false
					break
				}
			}
		}
	}
	fmt.Printf("selftest: property=%s %d processes x %d cases, deterministic=%v\n", p.id, runs, n, ok)
	return ok
}
