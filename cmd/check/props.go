package main

import "time"

var realAll = []string{"every package of /repo (scratch copy, mechanically instrumented)", "golang.org/x/text/language", "seehuhn.de/go/postscript", "seehuhn.de/go/geom", "seehuhn.de/go/dijkstra"}

func init() {
	register(&propCfg{
		id: "C17", worker: "c17", goCmd: "go",
		instrument: []string{"-maps", "-clock", "-tick"},
		tiers: map[string]tierCfg{
			"quick":    {cases: 220_000, timeout: 10 * time.Minute},
			"thorough": {cases: 24_000_000, timeout: 60 * time.Minute},
		},
		level: "exploration",
		rule: "case i < E: the i-th history of length <= 2 (quick) / <= 3 (thorough) over a boundary-operation alphabet, for 10 boundary input sizes and two reader behaviours (enumerated); case i >= E: input length, bytes, 1..60 operations with window-edge-biased offsets and per-reader-call short reads / EOF forms all drawn from the case's choice tape. A case is non-trivial if it performed at least one operation; distinct = distinct hash of (input length, operation kinds and arguments, per-operation class: position relative to EOF x reader traffic x outcome).",
		real:  []string{"seehuhn.de/go/sfnt/parser (scratch copy of /repo, instrumented)"},
		stubs: []string{"the parser.ReadSeekSizer under the Parser (simio.ReadSeekSizer: short reads, (n>0,EOF), (0,EOF), single (0,nil) reads, seeks beyond EOF)"},
		assume: []string{
			"the reader never returns a non-EOF error and never more than one consecutive (0,nil) read (outside C17's quantifier)",
			"after a failed read the model resynchronises to the reported Pos, which must lie in [start+n, max(start+n,size)] (the statement does not say how much a failed read consumes)",
		},
	})
}
