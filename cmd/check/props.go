package main

import "time"

var realAll = []string{"every package of /repo (scratch copy, mechanically instrumented)", "golang.org/x/text/language", "seehuhn.de/go/postscript", "seehuhn.de/go/geom", "seehuhn.de/go/dijkstra"}

func init() {
	register(&propCfg{
		id: "C19", worker: "c19", goCmd: "go1.26.8", testBinary: true,
		instrument: []string{"-maps", "-clock", "-tick", "-chan", "gtab/builder"},
		tiers: map[string]tierCfg{
			"quick":    {cases: 40_000, timeout: 15 * time.Minute},
			"thorough": {cases: 3_000_000, timeout: 120 * time.Minute},
		},
		level: "exploration",
		rule: "case = one tape: a font (debug font with glyph names A..Z, Go Regular with post names, Go Regular without names; all with a cmap) and a text: 5/9 a tape-chosen selection of lookups from two sample descriptions covering GSUB1-6 and GPOS1-4, 3/9 the Explain output of generated lookups, 1/9 random bytes; 0..3 token-level faults (delete, duplicate, swap, replace by another token kind, truncate, unterminated string, unmapped rune at a tape-chosen position of a string, NUL byte, stray $). builder.Parse runs inside a testing/synctest bubble; before every channel send, receive, range and close of the builder package the goroutine parks, and at every quiescence the tape picks which parked goroutine proceeds (the parse error is the fault: it decides where the consumer abandons the producers). Oracles: quiescence without a parked goroutine and without Parse having returned = deadlock; goroutines of the builder package alive after Parse returned and everything was released = leak; panic; step budget; an error must start with a line number in 1..lines+1. Accepted texts go through Explain and Parse again (incidental round trip). Non-trivial = every case; distinct = distinct (font, text, schedule).",
		real:  realAll,
		stubs: []string{"goroutine scheduling inside the bubble (tape-driven release at channel operations; testing/synctest provides quiescence detection)", "map iteration order", "step counter"},
		assume: []string{
			"the lexer/parser/string-decoder network communicates over unbuffered channels only; yields are inserted before every channel operation found in the builder package at check time",
			"GOMAXPROCS does not influence the outcome inside the bubble (exactly one goroutine is released at a time); the determinism self-test runs at 1, 4 and 16",
		},
	})
	register(&propCfg{
		id: "C16", worker: "c16", goCmd: "go", race: true, chunk: 8,
		instrument: []string{"-maps", "-clock", "-tick", "-locks"},
		tiers: map[string]tierCfg{
			"quick":    {cases: 480, timeout: 10 * time.Minute},
			"thorough": {cases: 24_000, timeout: 60 * time.Minute},
		},
		level: "exploration",
		rule: "case = one tape: a shared font (a Go font, its simple or CID-keyed CFF conversion, or a generated font with GSUB/GPOS/GDEF) built on the main goroutine; 2..6 tasks each with 2..6 tape-chosen read-only operations (Write, WriteTrueTypePDF / WriteOpenTypeCFFPDF, AsCFF().Write, Subset+Write, Clone, FontBBox(PDF), Widths*/IsFixedPitch, GlyphBBoxes, glyph metrics, MakeGlyphNames, GetFontInfo/PostScriptName, NewLayouter+Layout, NewContext+Apply on the shared lookup lists, ExplainGsub/ExplainGpos). Exactly one task runs at a time; the tape picks the next task at operation boundaries, at every simulated Write call and at tape-chosen function-entry/loop steps (40..440 switches per case). The baton is passed with raw pipe system calls that the race detector does not model, so it still reports unsynchronised conflicting accesses between tasks. Afterwards every result is compared with the same call run alone on an independently built identical font, and the shared font's digest with its value before. 8 cases per process so that package-level lazily-built state is cold regularly. Non-trivial = every case; distinct = distinct (schedule hash, operation plan).",
		real:  realAll,
		stubs: []string{"goroutine scheduling (package sched: tape-driven baton over raw pipes, invisible to the race detector)", "io.Writer (simio.Writer, a yield point)", "map iteration order (fixed per case)"},
		assume: []string{
			"operations the library documents as modifying (EnsureGlyphNames, InstallCMap) are excluded: the property is about read-only use",
			"the race detector keeps a bounded access history per memory word; a conflicting access evicted from it is missed",
			"porcupine is not used: the shared object is immutable, so the sequential specification is 'each call returns its solo result', which is checked directly",
		},
	})
	register(&propCfg{
		id: "C02", worker: "c02", goCmd: "go",
		instrument: []string{"-maps", "-clock", "-tick"},
		tiers: map[string]tierCfg{
			"quick":    {cases: 240_000, timeout: 20 * time.Minute},
			"thorough": {cases: 20_000_000, timeout: 180 * time.Minute},
		},
		level: "exploration",
		rule: "case = one tape: one of 19 decoders (sfnt.Read via ReaderAt and via a streaming reader, header.Read, cff.Read, cmap.Decode, glyf.Decode, gtab.Read for GSUB and GPOS, gdef.Read, coverage.Read/ReadSet, classdef.Read, name.Decode, head.Read, hmtx.Decode, maxp.Read, os2.Read, post.Read, kern.Read) is fed the matching artefact of a font the library itself wrote (Go fonts, their CFF conversions, 24 generated fonts with GSUB/GPOS/GDEF/kern) after 1..3 faults of the stored-data catalogue (truncate, bit flips, byte/16-bit/32-bit field set or nudged, zeroed/duplicated/swapped/random sector, torn overwrite with another file's table, garbage tail; 1/14 undamaged, 1/14 all-random bytes), through readers with tape-chosen short reads in half of the cases. Oracles: no panic, deterministic step budget (2e8 + 1e4*len), allocation <= 64 MiB + 1 KiB*len; on success the accessor battery of the statement (glyph counts, widths, boxes, cmap Get/GetBest/Lookup, SimpleGlyph.Decode, Components, re-encoding) must not panic. Non-trivial = every case; distinct = distinct (decoder, input bytes).",
		real:  realAll,
		stubs: []string{"stored bytes (fault catalogue)", "io.Reader / io.ReaderAt / parser.ReadSeekSizer (simio: short reads, zero-length reads, EOF forms)", "step counter", "allocation meter (runtime.MemStats.TotalAlloc delta, single-threaded worker)"},
		assume: []string{
			"the byte strings explored are fault neighbourhoods of valid artefacts plus short random strings: a sample of 'all byte strings', not the space",
			"Layout, Subset and name generation on damaged fonts are not part of the accessor battery (the statement does not list them)",
		},
	})
	register(&propCfg{
		id: "C07", worker: "c07", goCmd: "go",
		instrument: []string{"-maps", "-clock", "-tick"},
		tiers: map[string]tierCfg{
			"quick":    {cases: 60_000, timeout: 20 * time.Minute},
			"thorough": {cases: 6_000_000, timeout: 120 * time.Minute},
		},
		level: "exploration",
		rule: "case = one tape: a GSUB or GPOS table (1..6 lookups over all subtable types and formats the encoders support; 3/4 'wild': out-of-range lookup/sequence/class/mark-set indices, empty replacement lists, self reference, > 64 nested actions) and a GDEF table are encoded, in half of the cases damaged by 1..3 faults of the stored-data catalogue, and read back; the case proceeds only with what gtab.Read / gdef.Read accept. One Context then receives 2..8 Apply calls (sequences of 0..200 glyphs over the full glyph-id range, biased to glyphs the rules mention; texts of 0..2 unique runes per glyph; lookups in list order, a subset, or any order incl. out-of-range); every call is repeated on a fresh Context and on a fresh Context under a second map order. In half of the cases the tables are also attached to a generated font and 2..5 strings are laid out on one Layouter and on fresh ones. Non-trivial = cases whose table was accepted; distinct = distinct digest of the tables read back.",
		real:  realAll,
		stubs: []string{"stored bytes of the GSUB/GPOS/GDEF tables (fault catalogue between encode and read)", "map iteration order", "step counter (deterministic termination budget of 2e8 steps per call)", "call history on gtab.Context and sfnt.Layouter"},
		assume: []string{
			"shapes the encoder refuses (panic in Encode) and bytes the reader rejects do not proceed; a reader panic is counted and left to C02",
			"vertical advance, device tables and GPOS type 5 are not generated",
		},
	})
	register(&propCfg{
		id: "C15", worker: "c15", goCmd: "go",
		instrument: []string{"-maps", "-clock", "-tick"},
		tiers: map[string]tierCfg{
			"quick":    {cases: 60_000, timeout: 15 * time.Minute},
			"thorough": {cases: 6_000_000, timeout: 90 * time.Minute},
		},
		level: "exploration",
		rule: "case = one tape. 10/18: a script list with 1..20 language systems (tags with and without -x- extension), 1..8 features incl. out-of-range indices, a language from a pool of matching, partially matching and unrelated tags and a feature-switch map (nil, defaults, random): FindLookups under five map-order assignments (first = last: plain repetition), plus ascending / in-range / equals-some-language-system. 6/18: a generated font with generated GSUB/GPOS/GDEF: NewLayouter + Layout of three strings (mapped and unmapped characters) and the first string again on the same Layouter, under four map orders. 1/18 each: a font file carrying only a kern table (every listed pair and six other pairs), a proportional font without GSUB mapping U+FB00..FB04. Non-trivial = all but the few kern/ligature cases whose font is too small; distinct = distinct hash of the generated configuration.",
		real:  realAll,
		stubs: []string{"map iteration order at every repository site", "call history on one Layouter", "io.Writer/ReaderAt (fault-free) for the kern and ligature files"},
		assume: []string{
			"which language system FindLookups should prefer is not judged: only that the answer is the lookup set of one of them and the same on every call",
			"a panic or step-budget overrun inside Layout ends the case and is left to C07",
		},
	})
	register(&propCfg{
		id: "C20", worker: "c20", goCmd: "go",
		instrument: []string{"-maps", "-clock", "-tick"},
		tiers: map[string]tierCfg{
			"quick":    {cases: 60_000, timeout: 15 * time.Minute},
			"thorough": {cases: 12_000_000, timeout: 90 * time.Minute},
		},
		level: "exploration",
		rule: "case = one tape: a font (TrueType / CFF / CID-keyed CFF, 1..200 glyphs) with a tape-chosen pattern of complete, missing, duplicate or absent glyph names (incl. a short TrueType name list), a cmap, and GSUB 1.1/1.2/3.1/4.1 lookups among existing glyphs in which several sources compete for the same target. MakeGlyphNames is asked under five map-order assignments (first and last equal: plain repetition), the font digest is compared before/after, the names are installed on a copy (EnsureGlyphNames), read back glyph by glyph and asked for again; CID-keyed fonts are converted with MakeSimple under three orders; PostScriptName is computed for a family name from a pool with forbidden characters. Non-trivial = every case; distinct = distinct font digest.",
		real:  realAll,
		stubs: []string{"map iteration order at every repository site", "call history on the font value (ask / install / ask again)"},
		assume: []string{
			"cmap and GSUB refer to existing glyphs only (the property's domain)",
			"the order in which inference sources are tried (cmap before GSUB before ornNNN) is not checked: it is a pure function of the input and needs a model of the inference",
		},
	})
	register(&propCfg{
		id: "C01", worker: "c01", goCmd: "go",
		instrument: []string{"-maps", "-clock", "-tick"},
		tiers: map[string]tierCfg{
			"quick":    {cases: 10_000, timeout: 20 * time.Minute},
			"thorough": {cases: 1_000_000, timeout: 120 * time.Minute},
		},
		level: "exploration",
		rule: "case = one tape. 7/11: a constructed font (TrueType / CFF / CID-keyed CFF, 1..300 glyphs, optional GSUB/GPOS/GDEF, tape-chosen metadata and timestamps) is written under four map-order assignments with the simulated clock at a different instant and jumping >= 25 h per read, twice on the same value and once on a Clone (R: all bytes equal, font value unchanged), then taken through three read/write generations each under another map order and clock (FP), then compared field by field with its first re-read (L, incidental). 4/11: a Go font file or the written form of a generated font, 3/4 of them damaged by 1..3 faults of the stored-data catalogue; if Read still accepts it the three generations are run (FP on fault survivors). Non-trivial = every case that reached at least one write; distinct = distinct digest of the font value or of the (damaged) file.",
		real:  realAll,
		stubs: []string{"io.Writer / io.ReaderAt (simio, fault-free here)", "map iteration order at every repository site", "time.Now (simhook.Now: tape-chosen instant, jumps >= 25 h on every read)", "stored bytes (fault catalogue applied between write and read)"},
		assume: []string{
			"fonts with both timestamps zero are outside the domain (the name table embeds the current date); for them only the clock reads are counted",
			"floats are compared to relative 1e-8 between generations, as the repository's own round-trip test does",
			"a panic of Read on a damaged file is counted and left to C02",
		},
	})
	register(&propCfg{
		id: "C03", worker: "c03", goCmd: "go",
		instrument: []string{"-maps", "-clock", "-tick"},
		tiers: map[string]tierCfg{
			"quick":    {cases: 20_000, timeout: 15 * time.Minute},
			"thorough": {cases: 3_000_000, timeout: 90 * time.Minute},
		},
		level: "exploration",
		rule: "70% of the cases: header.Write of a tape-generated table map (1..70 tables, known and random printable tags, lengths 0..5000 biased to 0..9 and 4k+-1, nil values, with/without a head table of 54..60 bytes, three scaler types) under four map-order assignments; 30%: a tape-generated font (TrueType / CFF / CID-keyed CFF, optionally with GSUB/GPOS/GDEF) written with Write, WriteTrueTypePDF (+extra tables) or WriteOpenTypeCFFPDF under three map-order assignments. After every acknowledged write the file is checked by an independent container walk (fsck), read back with header.Read/ReadTableBytes and compared across map orders; complete fonts are also handed to golang.org/x/image/font/sfnt (incidental). Non-trivial = every case; distinct = distinct hash of (scaler, tag/length list) or (operation, font digest).",
		real:  realAll,
		stubs: []string{"io.Writer (simio.Writer, fault-free here)", "map iteration order at every repository site (simhook.Range / Permute)", "golang.org/x/image/font/sfnt is real code used as an independent judge"},
		assume: []string{
			"maps without any non-nil table are not generated (header.Read rejects an empty container by design)",
			"head tables shorter than 54 bytes are not generated",
			"whether the last table is padded to a multiple of four is not judged",
		},
	})
	register(&propCfg{
		id: "C18", worker: "c18", goCmd: "go", planned: true,
		instrument: []string{"-maps", "-clock", "-tick"},
		tiers: map[string]tierCfg{
			"quick":    {timeout: 15 * time.Minute},
			"thorough": {timeout: 90 * time.Minute},
		},
		level: "fault_enumeration",
		rule: "case = (corpus file, fault family, operation/reader kind, fault offset k, partial-acceptance mode). Corpus: Go fonts (TrueType), two CFF conversions (simple, CID-keyed), 36 tape-generated fonts of all three outline kinds, half of them with GSUB/GPOS/GDEF. Families: writer fails at k (Write, WriteTrueTypePDF, WriteOpenTypeCFFPDF, cff.Font.Write, header.Write; five acceptance modes at call boundaries), file cut at k, reader fails for accesses touching offsets >= k, reader fails in a bounded window [k,k+w) (ReaderAt with both EOF conventions, streaming Reader with tape-chosen short reads). thorough: every k in 0..len for files <= 64 KiB, otherwise call/table boundaries +-2 and 4096 sampled offsets; quick: boundaries +-1 and 64 sampled offsets per (file, operation). Every case is distinct by construction; non-trivial = all of them (each injects exactly one fault plan, k = len is the fault-free control).",
		real:  realAll,
		stubs: []string{"io.Writer (simio.Writer: fails at byte k, five acceptance modes incl. transient failure)", "io.ReaderAt (simio.ReaderAt: failing region, both legal EOF conventions)", "io.Reader (simio.Reader: short reads, zero-length reads, EOF with data, failure at k)"},
		assume: []string{
			"a reader that delivers (n == len, io.EOF) for a read ending exactly at the end of the data may be refused by header.Read (DESIGN.md note N1); such refusals are counted, not judged",
			"in the bounded-window (bad sector) family success is accepted if the returned font equals the fault-free one",
		},
	})
	register(&propCfg{
		id: "C17", worker: "c17", goCmd: "go",
		instrument: []string{"-maps", "-clock", "-tick"},
		tiers: map[string]tierCfg{
			"quick":    {cases: 220_000, timeout: 10 * time.Minute},
			"thorough": {cases: 24_000_000, timeout: 60 * time.Minute},
		},
		level: "exploration",
		rule: "case i < E: the i-th history of length <= 2 (quick) / <= 3 (thorough) over a boundary-operation alphabet, for 10 boundary input sizes and two reader behaviours (enumerated); case i >= E: input length, bytes, 1..60 operations with window-edge-biased offsets and per-reader-call short reads / EOF forms all drawn from the case's choice tape. A case is non-trivial if it performed at least one operation; distinct = distinct hash of (input length, operation kinds and arguments, per-operation class: position relative to EOF x reader traffic x outcome).",
		real:  []string{"seehuhn.de/go/sfnt/parser (scratch copy of /repo, instrumented)"},
		stubs: []string{"the parser.ReadSeekSizer under the Parser (simio.ReadSeekSizer: short reads, (n>0,EOF), (0,EOF), single (0,nil) reads, seeks beyond EOF)"},
		assume: []string{
			"the reader never returns a non-EOF error and never more than one consecutive (0,nil) read (outside C17's quantifier)",
			"after a failed read the model resynchronises to the reported Pos, which must lie in [start+n, max(start+n,size)] (the statement does not say how much a failed read consumes)",
		},
	})
}
